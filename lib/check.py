#!/usr/bin/env python3
"""bin/check <PROPERTY> [--tier quick|thorough] [--unit ID ...] [--rebaseline] [--keep]

Decides one property on /repo's current working tree with the registered contract units
(engine K = Kani on the real crate with an add-only overlay, engine V = Verus on
mechanically extracted functions).  Exit 0 / 1 (VIOLATION line) / 2 (undecided).
"""
import argparse
import json
import os
import re
import shutil
import subprocess
import sys
import time
from concurrent.futures import ThreadPoolExecutor

sys.path.insert(0, os.path.dirname(os.path.abspath(__file__)))
import core  # noqa: E402
from core import log  # noqa: E402
import units as registry  # noqa: E402
import replay as replay_mod  # noqa: E402

VERIF = core.VERIF
BASELINE_FILE = os.path.join(VERIF, "obligations.baseline.json")
FINDINGS_FILE = os.path.join(VERIF, "known_findings.json")


def load_json(path, default):
    try:
        with open(path) as f:
            return json.load(f)
    except FileNotFoundError:
        return default


def scan_assumptions(files):
    """Mechanical scan of the contract files for everything that is assumption, not proof."""
    pats = [r"kani::assume\(", r"#\[kani::stub\(", r"mem::forget\(", r"external_body", r"assume_specification",
            r"\badmit\(", r"\bassume\(", r"kani::any_where", r"#\[kani::unwind\("]
    found = []
    for f in sorted(set(files)):
        try:
            lines = open(f).read().splitlines()
        except FileNotFoundError:
            continue
        counts = {}
        for ln in lines:
            for p in pats:
                if re.search(p, ln):
                    counts[p] = counts.get(p, 0) + 1
        rel = os.path.relpath(f, VERIF)
        for p, n in sorted(counts.items()):
            found.append(f"{rel}: {n} x /{p}/")
    return found


def functions_under_contract(unit_list):
    out, lost = [], []
    for u in unit_list:
        for fn in u.get("functions", []):
            try:
                text, sig, body, line = core.item_text(fn["file"], fn["anchor"], fn.get("within"))
                out.append({"unit": u["id"], "function": fn.get("name", fn["anchor"]),
                            "where": f"{fn['file']}:{line}", "body_sha256": core.sha256(body)})
            except (core.AnchorLost, FileNotFoundError) as e:
                lost.append((u["id"], f"{fn['file']} /{fn['anchor']}/: {e}"))
    return out, lost


def main():
    ap = argparse.ArgumentParser()
    ap.add_argument("prop")
    ap.add_argument("--tier", default=os.environ.get("VERIF_TIER", "quick"), choices=["quick", "thorough"])
    ap.add_argument("--unit", action="append")
    ap.add_argument("--rebaseline", action="store_true", help="maintenance only: record discharged obligations")
    ap.add_argument("--keep", action="store_true")
    ap.add_argument("--no-mutants", action="store_true")
    ap.add_argument("--jobs", type=int, default=int(os.environ.get("VERIF_JOBS", "0")))
    ap.add_argument("--no-evidence", action="store_true")
    args = ap.parse_args()
    prop, tier = args.prop, args.tier
    seed = int(os.environ.get("VERIF_SEED", "0") or 0)
    t0 = time.time()

    all_units = [u for u in registry.UNITS if prop in u["props"]]
    if args.unit:
        all_units = [u for u in all_units if u["id"] in args.unit]
    def unit_tier(u):
        return (u.get("tier_for") or {}).get(prop, u.get("tier", "quick"))
    if args.unit:
        sel = all_units  # explicit units (incl. tier "manual": written, but in no registered command)
    else:
        sel = [u for u in all_units if unit_tier(u) == "quick" or (tier == "thorough" and unit_tier(u) == "thorough")]
    if not sel:
        log(f"no units registered for {prop}")
        return core.EXIT_UNDECIDED
    jobs = args.jobs or (4 if tier == "quick" else 3)
    mem_gb = 14 if tier == "quick" else 22
    kunits = [u for u in sel if u["engine"] == "kani"]
    vunits = [u for u in sel if u["engine"] == "verus"]

    baseline = set(load_json(BASELINE_FILE, {"obligations": []})["obligations"])
    findings = load_json(FINDINGS_FILE, {"findings": [], "fixed": []})

    results, undecided = [], []
    fuc, lost = functions_under_contract(sel)
    lost_units = {u for u, _ in lost}
    for uid, why in lost:
        undecided.append({"unit": uid, "reason": "lost anchor: " + why})

    scratch = core.Scratch(prop.lower())
    try:
        scratch.create()
        vdir = os.path.join(scratch.dir, "verus")
        # engine V
        with ThreadPoolExecutor(max_workers=max(1, min(4, len(vunits) or 1))) as ex:
            vfut = [ex.submit(core.run_verus_unit, u, vdir) for u in vunits if u["id"] not in lost_units]
            # engine K (shares the pool of `jobs` cbmc processes)
            kres = []
            if kunits:
                # 1. K-slices first: a unit whose slice anchors are lost must not get its module attached
                done_slices = set()
                for u in kunits:
                    if u["id"] in lost_units:
                        continue
                    try:
                        for sl in u.get("slices", []):
                            if sl["name"] not in done_slices:
                                scratch.add_slice(sl)
                                done_slices.add(sl["name"])
                    except (core.AnchorLost, FileNotFoundError) as e:
                        undecided.append({"unit": u["id"], "reason": f"lost anchor (K-slice): {e}"})
                        lost_units.add(u["id"])
                # 2. harness modules of the units that are still in play
                attached = set()
                for u in kunits:
                    if u["id"] in lost_units:
                        continue
                    for key in [(u["file"], u["modfile"])] + [tuple(x) for x in u.get("extra_attach", [])]:
                        if key not in attached:
                            try:
                                scratch.attach(*key)
                            except core.AnchorLost as e:
                                undecided.append({"unit": u["id"], "reason": f"lost anchor: {e}"})
                                lost_units.add(u["id"])
                            attached.add(key)
                # units sharing a module with a lost unit cannot compile either
                lost_mods = {(u["file"], u["modfile"]) for u in kunits if u["id"] in lost_units}
                for u in kunits:
                    if u["id"] not in lost_units and (u["file"], u["modfile"]) in lost_mods and (u["file"], u["modfile"]) not in attached:
                        undecided.append({"unit": u["id"], "reason": "harness module shared with a unit whose anchors are lost"})
                        lost_units.add(u["id"])
                run = [u for u in kunits if u["id"] not in lost_units]
                if run:
                    # first harness alone builds the dependencies; the others then share target/
                    order = sorted(run, key=lambda u: -u.get("timeout", 600))
                    with ThreadPoolExecutor(max_workers=jobs) as kex:
                        kf = [kex.submit(core.run_kani_unit, scratch, u, mem_gb) for u in order]
                        kres = [f.result() for f in kf]
            vres = [f.result() for f in vfut]
        results = vres + kres

        # sanity mutants (thorough tier): the obligation must fail on a deliberately broken copy
        mutant_log = []
        if tier == "thorough" and not args.no_mutants:
            byid = {r["unit"]: r for r in results}
            muts = [u for u in sel if u.get("mutant") and u["id"] not in lost_units and not byid.get(u["id"], {}).get("undecided")]
            for u in muts:
                mutant_log.append(run_mutant(scratch, u, mem_gb))
            for m in mutant_log:
                if not m["killed"]:
                    undecided.append({"unit": m["unit"], "reason": "sanity mutant not detected: contract too weak - " + m["detail"]})

        # ------------------------------------------------------------------ verdicts
        by_unit = {u["id"]: u for u in sel}
        obligations, failed, known_lines = [], [], []
        for r in results:
            if r.get("undecided"):
                undecided.append({"unit": r["unit"], "reason": r["undecided"]})
            for o in r["obligations"]:
                o["unit"] = r["unit"]
                obligations.append(o)
        for o in obligations:
            if o["status"] != "failed":
                continue
            kf = next((f for f in findings.get("findings", []) if f["property"] == prop and f["key"] == o["id"]), None)
            if kf:
                known_lines.append(f"KNOWN-FINDING: property={prop} {kf['what']}")
                o["status"] = "known-finding"
                continue
            if o["id"] in baseline or args.rebaseline:
                failed.append(o)
            else:
                undecided.append({"unit": o["unit"], "reason": f"obligation {o['id']} fails but is not in the baseline (never discharged on the unchanged tree) - not claimed\n" + "\n".join(o.get("failed_checks") or [])})
        # baseline obligations of the selected units that were not produced at all => undecided
        produced = {o["id"] for o in obligations}
        sel_prefix = tuple(u["id"] + "::" for u in sel)
        und_units = {x["unit"] for x in undecided}
        for b in sorted(baseline):
            if not args.rebaseline and b.startswith(sel_prefix) and b not in produced and b.split("::")[0] not in und_units:
                undecided.append({"unit": b.split("::")[0], "reason": f"baseline obligation {b} was not generated on this run"})

        if args.rebaseline:
            # re-read under a lock: other properties may have been re-baselined meanwhile
            import fcntl
            with open(BASELINE_FILE + ".lock", "w") as lk:
                fcntl.flock(lk, fcntl.LOCK_EX)
                current = set(load_json(BASELINE_FILE, {"obligations": []})["obligations"])
                keep = {b for b in current if not b.startswith(sel_prefix)}
                new = {o["id"] for o in obligations if o["status"] == "discharged"}
                tmp = BASELINE_FILE + f".tmp{os.getpid()}"
                json.dump({"obligations": sorted(keep | new)}, open(tmp, "w"), indent=1)
                os.replace(tmp, BASELINE_FILE)
            log(f"baseline: {len(new)} obligations recorded for {prop} ({tier})")

        # ------------------------------------------------------------------ replay
        viol_lines = []
        for o in failed:
            r = next(r for r in results if r["unit"] == o["unit"])
            path = replay_mod.make_replay(prop, o, r, by_unit[o["unit"]], scratch, tier)
            suffix = "" if replay_mod.reproduced(path) else " no-failing-input-found"
            viol_lines.append(f"VIOLATION property={prop} replay={path}{suffix}")

        # ------------------------------------------------------------------ evidence
        wall = time.time() - t0
        if not args.no_evidence:
            write_evidence(prop, tier, seed, sel, results, obligations, failed, undecided, known_lines, fuc,
                           scratch, mutant_log, wall)
        for ln in known_lines:
            print(ln)
        for ln in viol_lines:
            print(ln)
        nd = sum(1 for o in obligations if o["status"] == "discharged")
        log(f"[{prop}/{tier}] obligations={len(obligations)} discharged={nd} failed={len(failed)} "
            f"known={len(known_lines)} undecided={len(undecided)} wall={wall:.0f}s")
        for u in undecided:
            log(f"  UNDECIDED {u['unit']}: {u['reason'].splitlines()[0]}")
            if os.environ.get("VERIF_VERBOSE"):
                log("\n".join("      " + l for l in u["reason"].splitlines()[1:40]))
            if os.environ.get("VERIF_VERBOSE"):
                log(u["reason"])
        if failed:
            return core.EXIT_VIOLATION
        if undecided:
            return core.EXIT_UNDECIDED
        return core.EXIT_OK
    finally:
        if not args.keep:
            scratch.remove()
        else:
            log(f"scratch kept at {scratch.dir}")


def run_mutant(scratch, unit, mem_gb):
    """Thorough tier: copy the scratch tree, break one line, expect the unit's obligation to fail."""
    m = unit["mutant"]
    mdir = scratch.dir + "-mut"
    shutil.rmtree(mdir, ignore_errors=True)
    rec = {"unit": unit["id"], "mutant": m.get("desc", ""), "killed": False, "detail": ""}
    try:
        if unit["engine"] == "kani":
            subprocess.run(["cp", "-a", scratch.dir, mdir], check=True)
            ms = core.Scratch("x")
            ms.dir, ms.repo = mdir, os.path.join(mdir, "repo")
            # every K-slice of the scratch copy is re-extracted from the mutated text (the attached
            # harness modules reference all of them)
            for f in {sl["file"] for sl in scratch.slices}:
                ms.drop_slices(f)
            ms.apply_edit(m["file"], m["old"], m["new"])
            for sl in scratch.slices:
                ms.add_slice(sl)
            r = core.run_kani_unit(ms, unit, mem_gb)
        else:
            os.makedirs(mdir)
            subprocess.run(["rsync", "-a", "--exclude", "/target", "--exclude", "/.git", os.path.join(scratch.repo, "src"), mdir + "/"], check=True)
            ms = core.Scratch("x")
            ms.dir, ms.repo = mdir, mdir
            ms.apply_edit(m["file"], m["old"], m["new"])
            r = core.run_verus_unit(unit, os.path.join(mdir, "verus"), root=mdir)
        failed = [o["id"] for o in r["obligations"] if o["status"] == "failed"]
        rec["killed"] = bool(failed)
        rec["failed_obligations"] = failed
        rec["detail"] = (r.get("undecided") or "no obligation failed").splitlines()[0] if not failed else "ok"
    except core.AnchorLost as e:
        rec["detail"] = f"mutant anchor lost: {e}"
        rec["killed"] = True  # cannot apply => not a weakness of the contract; reported, not fatal
        rec["skipped"] = True
    finally:
        shutil.rmtree(mdir, ignore_errors=True)
    return rec


def write_evidence(prop, tier, seed, sel, results, obligations, failed, undecided, known_lines, fuc, scratch,
                   mutant_log, wall):
    os.makedirs(os.path.join(VERIF, "evidence"), exist_ok=True)
    by_backend, solver = {}, {}
    for o in obligations:
        if o["status"] == "discharged":
            by_backend[o["backend"]] = by_backend.get(o["backend"], 0) + 1
    for r in results:
        solver[r["unit"]] = {"wall_s": r.get("wall_s"), "solver_time_s": r.get("solver_time_s"),
                             "checks_generated": r.get("checks_total")}
        if r.get("ignored_checks"):
            solver[r["unit"]]["ignored_dealloc_model_checks"] = sorted(set(r["ignored_checks"]))
            solver[r["unit"]]["covers_satisfied"] = [c["name"] for c in r.get("covers", []) if c["status"] == "SATISFIED"]
    assumed, bounded, trusted = [], {}, set()
    files = [os.path.join(VERIF, "lib", "units.py")]
    for u in sel:
        for a in u.get("assumed", []):
            assumed.append(f"{u['id']}: {a}")
        if u.get("bounded"):
            bounded[u["id"]] = u["bounded"]
        if u.get("ignore_dealloc_model"):
            assumed.append(f"{u['id']}: Kani's __rust_dealloc model assertions excluded from no-panic (kani 0.68 models some empty Vecs with capacity 1; crate forbids unsafe code)")
        if u["engine"] == "kani":
            files.append(os.path.join(VERIF, "contracts", "kani", u["modfile"]))
            trusted.update(["kani 0.68 / cbmc 6.11 (bit-precise; dev profile)", "rustc MIR -> goto translation",
                            "stubs/tracing (macros expand to ()), stubs/arc-swap (sequential Option<Arc<T>>)"])
        else:
            trusted.update(["verus 0.2026.09.13 / z3", "mechanical extraction lib/core.py (drops: docs, comments, lint attrs, visibility, module context)"])
    n_obl = sum(1 for o in obligations if o["status"] in ("discharged", "failed"))
    n_dis = sum(1 for o in obligations if o["status"] == "discharged")
    samples = [{k: v for k, v in o.items() if k in ("id", "status", "text", "backend", "kind", "failed_checks")}
               for o in obligations][:60]
    ev = {
        "property_id": prop, "tier": tier, "seed": seed, "level": "proof",
        "coverage": {
            "obligations": n_obl, "discharged": n_dis,
            "checker_cmd": "; ".join(sorted({re.sub(r"--harness \S+", "--harness <unit harness>", re.sub(r"^verus \S+", "verus <extracted unit file>", r.get("cmd") or "")) for r in results if r.get("cmd")}))
                           + "  [run per unit inside a scratch copy of /repo with the add-only overlay; exact per-unit commands under 'units']",
            "trusted_base": sorted(trusted),
            "functions_under_contract": fuc,
            "by_backend": by_backend,
            "solver_time_s": solver,
            "bounded": bounded,
            "assumed_contracts": assumed,
            "overlay_log": scratch.overlay_log,
            "verus_extraction": [{"unit": r["unit"], "functions": r.get("functions"), "dropped": r.get("dropped")}
                                 for r in results if r.get("kind") == "V"],
            "units": [{"id": u["id"], "engine": u["engine"], "kind": u.get("kind", "V"), "claim": u.get("claim", ""),
                       "harness": u.get("harness"), "cmd": next((r.get("cmd") for r in results if r["unit"] == u["id"]), None)} for u in sel],
            "undecided": undecided,
            "known_findings_reported": known_lines,
            "sanity_mutants": mutant_log,
            "samples": samples,
            "exhaustive": False,
            "explanation": "every obligation is generated from /repo's current working tree on this run; 'discharged' = accepted by the verifier for all inputs of the function under contract (K-full), for all callee outcome sequences (K-callee), up to the stated bound (K-bounded, listed under 'bounded', not counted as proved) or for all values (V)",
        },
        "assumptions": scan_assumptions(files) + assumed + [
            "machine arithmetic: bit-precise in Kani; Verus uses mathematical integers with overflow obligations on the extracted exec code",
            "termination is not proved by Kani (loops fully unwound with unwinding assertions on)",
            "dev profile only (debug assertions on); release profile not covered"],
        "wall_s": round(wall, 1),
        "violations": len(failed),
    }
    with open(os.path.join(VERIF, "evidence", f"{prop}.json"), "w") as f:
        json.dump(ev, f, indent=1, default=str)


if __name__ == "__main__":
    sys.exit(main())
