"""Core machinery: scratch overlay of /repo, Kani runner, Verus runner, verdicts, evidence.

Nothing here models the code under proof: both engines consume text taken from /repo's
current working tree on every run (see DESIGN.md Section 2).
"""
import hashlib
import json
import os
import re
import shutil
import signal
import subprocess
import sys
import time
from concurrent.futures import ThreadPoolExecutor

VERIF = os.path.dirname(os.path.dirname(os.path.abspath(__file__)))
REPO = os.environ.get("VERIF_REPO", "/repo")
SCRATCH_ROOT = os.environ.get("VERIF_SCRATCH", "/var/tmp")

EXIT_OK, EXIT_VIOLATION, EXIT_UNDECIDED = 0, 1, 2


def log(*a):
    print(*a, file=sys.stderr, flush=True)


def sha256(s):
    return hashlib.sha256(s.encode()).hexdigest()


# --------------------------------------------------------------------------------------
# source anchors (used by both engines): find items in /repo's current text
# --------------------------------------------------------------------------------------

class AnchorLost(Exception):
    pass


def read_repo(rel, root=None):
    with open(os.path.join(root or REPO, rel), encoding="utf-8") as f:
        return f.read()


def _skip_string_or_comment(src, i):
    """If src[i:] starts a comment / string / char literal, return index after it, else None."""
    if src.startswith("//", i):
        j = src.find("\n", i)
        return len(src) if j < 0 else j
    if src.startswith("/*", i):
        depth, j = 1, i + 2
        while j < len(src) and depth:
            if src.startswith("/*", j):
                depth += 1
                j += 2
            elif src.startswith("*/", j):
                depth -= 1
                j += 2
            else:
                j += 1
        return j
    c = src[i]
    if c == '"':
        j = i + 1
        while j < len(src):
            if src[j] == "\\":
                j += 2
                continue
            if src[j] == '"':
                return j + 1
            j += 1
        return j
    if c == "r" and re.match(r'r#*"', src[i:i + 8]) and (i == 0 or not (src[i - 1].isalnum() or src[i - 1] == "_")):
        m = re.match(r'r(#*)"', src[i:])
        close = '"' + m.group(1)
        j = src.find(close, i + len(m.group(0)))
        return len(src) if j < 0 else j + len(close)
    if c == "'":
        # char literal or lifetime
        m = re.match(r"'(\\.[^']*|[^\\'])'", src[i:i + 12])
        if m:
            return i + len(m.group(0))
        return None
    return None


def match_brace(src, open_idx):
    """Index just past the brace that closes src[open_idx] == '{'."""
    assert src[open_idx] == "{"
    depth, i = 0, open_idx
    while i < len(src):
        j = _skip_string_or_comment(src, i)
        if j is not None:
            i = j
            continue
        c = src[i]
        if c == "{":
            depth += 1
        elif c == "}":
            depth -= 1
            if depth == 0:
                return i + 1
        i += 1
    raise AnchorLost("unbalanced braces")


def find_body_open(src, start):
    """First '{' at or after `start` that is not inside (), [], <> of the signature, comments or strings."""
    i, par = start, 0
    while i < len(src):
        j = _skip_string_or_comment(src, i)
        if j is not None:
            i = j
            continue
        c = src[i]
        if c in "([":
            par += 1
        elif c in ")]":
            par -= 1
        elif c == "{" and par == 0:
            return i
        elif c == ";" and par == 0:
            raise AnchorLost("item has no body")
        i += 1
    raise AnchorLost("no body found")


def end_of_statement(src, start):
    """Index just past the `;` that ends the statement starting at `start` (depth-aware)."""
    i, depth = start, 0
    while i < len(src):
        j = _skip_string_or_comment(src, i)
        if j is not None:
            i = j
            continue
        c = src[i]
        if c in "([{":
            depth += 1
        elif c in ")]}":
            depth -= 1
            if depth < 0:
                raise AnchorLost("statement ran out of its block")
        elif c == ";" and depth == 0:
            return i + 1
        i += 1
    raise AnchorLost("unterminated statement")


def strip_test_module(src):
    """Cut `#[cfg(test)] mod tests { .. }` so anchors never match test code."""
    m = re.search(r"#\[cfg\(test\)\]\s*(pub\s+)?mod\s+\w+\s*\{", src)
    return src if not m else src[: m.start()]


def find_item(src, anchor, within=None):
    """Locate an item by regex `anchor` (must match exactly once in non-test code, or inside
    the block opened by the unique match of `within`).  Returns (start, body_open, end)."""
    text = strip_test_module(src)
    lo, hi = 0, len(text)
    if within:
        ms = list(re.finditer(within, text))
        if len(ms) != 1:
            raise AnchorLost(f"scope anchor /{within}/ matched {len(ms)} times")
        bo = find_body_open(text, ms[0].end() - 1 if text[ms[0].end() - 1] == "{" else ms[0].end())
        lo, hi = bo, match_brace(text, bo)
    ms = [m for m in re.finditer(anchor, text) if lo <= m.start() < hi]
    if len(ms) != 1:
        raise AnchorLost(f"anchor /{anchor}/ matched {len(ms)} times" + (f" within /{within}/" if within else ""))
    s = ms[0].start()
    bo = find_body_open(text, s)
    return s, bo, match_brace(text, bo)


def item_text(rel, anchor, within=None, root=None):
    src = read_repo(rel, root)
    s, bo, e = find_item(src, anchor, within)
    line = src.count("\n", 0, s) + 1
    return src[s:e], src[s:bo], src[bo:e], line


# --------------------------------------------------------------------------------------
# scratch copy + overlay (engine K)
# --------------------------------------------------------------------------------------

PATCH_TOML = """
# --- added by /verif overlay (scratch copy only) ---
[patch.crates-io]
tracing = {{ path = "{v}/stubs/tracing" }}
arc-swap = {{ path = "{v}/stubs/arc-swap" }}
"""


class Scratch:
    def __init__(self, tag):
        self.dir = os.path.join(SCRATCH_ROOT, f"verif-{tag}-{os.getpid()}")
        self.repo = os.path.join(self.dir, "repo")
        self.overlay_log = []
        self.slices = []  # every K-slice added to this scratch copy (re-added after a sanity-mutant edit)

    def create(self):
        shutil.rmtree(self.dir, ignore_errors=True)
        os.makedirs(self.dir)
        subprocess.run(["rsync", "-a", "--exclude", "/target", "--exclude", "/.git", REPO + "/", self.repo + "/"], check=True)
        with open(os.path.join(self.repo, "Cargo.toml"), "a") as f:
            f.write(PATCH_TOML.format(v=VERIF))
        self.overlay_log.append("Cargo.toml: [patch.crates-io] tracing, arc-swap -> /verif/stubs (appended)")
        os.makedirs(os.path.join(self.repo, ".cargo"), exist_ok=True)
        with open(os.path.join(self.repo, ".cargo", "config.toml"), "a") as f:
            f.write("\n[net]\noffline = true\n")
        return self

    def attach(self, rel, modfile):
        """Append the harness module as a child of the module under proof."""
        path = os.path.join(self.repo, rel)
        if not os.path.exists(path):
            raise AnchorLost(f"{rel} does not exist")
        stem = re.sub(r"[^A-Za-z0-9_]", "_", os.path.splitext(modfile)[0])
        line = f'\n#[cfg(kani)] #[path = "{VERIF}/contracts/kani/{modfile}"] pub(crate) mod verif_kani_{stem};\n'
        with open(path, "a") as f:
            f.write(line)
        self.overlay_log.append(f"{rel}: appended `#[cfg(kani)] #[path=contracts/kani/{modfile}] mod verif_kani_{stem};`")

    def _abstract_regions(self, rest, rx, sl):
        """rx["abstract"]: code regions (brace-matched blocks whose opening brace ends the unique
        match of `open`) whose body is replaced by `body` - an abstraction of that region,
        recorded in the overlay log."""
        for ab in rx.get("abstract", []):
            ms2 = list(re.finditer(ab["open"], rest, re.S))
            want = ab.get("count", 1)  # number of regions expected (all get the same abstraction)
            if len(ms2) != want:
                raise AnchorLost(f"slice region /{ab['open']}/ matched {len(ms2)} times in {sl['fn_anchor']} (expected {want})")
            for m2 in reversed(ms2):
                bo2 = m2.end() - 1
                if rest[bo2] != "{":
                    raise AnchorLost(f"slice region /{ab['open']}/ does not end at an opening brace")
                be2 = match_brace(rest, bo2)
                self.overlay_log.append(f"{sl['file']}: K-slice `{sl['name']}`: region /{ab['open']}/ ({rest[bo2:be2].count(chr(10))} lines) abstracted to `{ab['body']}`")
                rest = rest[:bo2] + "{ " + ab["body"] + " }" + rest[be2:]
        return rest

    def add_slice(self, sl):
        """K-slice: verbatim statements of a method, appended as a `#[cfg(kani)]` method of the
        same impl (header copied mechanically).  Drops everything else in the function."""
        path = os.path.join(self.repo, sl["file"])
        src = open(path).read()
        body_src = strip_test_module(src)
        s0, bo, e = find_item(src, sl["fn_anchor"], sl.get("within"))
        body = body_src[bo:e]
        stmts = []
        for rx in sl["stmts"]:
            if isinstance(rx, dict) and "prefix_until" in rx:
                # every statement of the function from its start up to and including the statement
                # that begins at the unique match of rx["prefix_until"]
                ms = list(re.finditer(rx["prefix_until"], body, re.S))
                if len(ms) != 1:
                    raise AnchorLost(f"slice prefix anchor /{rx['prefix_until']}/ matched {len(ms)} times in {sl['fn_anchor']}")
                stmts.append(LINE_COMMENT_RE.sub("", body[1:end_of_statement(body, ms[0].start())]).strip())
                continue
            if isinstance(rx, dict) and "rest_of_block_after" in rx:
                # the remainder of the enclosing block (e.g. a loop body) after the statement that
                # begins at the unique match of rx["rest_of_block_after"]
                ms = list(re.finditer(rx["rest_of_block_after"], body, re.S))
                if len(ms) != 1:
                    raise AnchorLost(f"slice anchor /{rx['rest_of_block_after']}/ matched {len(ms)} times in {sl['fn_anchor']}")
                if rx.get("anchor_is_block"):
                    # the anchor statement is a brace block without a trailing `;` (`if .. { .. }`)
                    st_end = match_brace(body, find_body_open(body, ms[0].start()))
                else:
                    st_end = end_of_statement(body, ms[0].start())
                i2, depth = st_end, 0
                while i2 < len(body):
                    j2 = _skip_string_or_comment(body, i2)
                    if j2 is not None:
                        i2 = j2
                        continue
                    if body[i2] in "([{":
                        depth += 1
                    elif body[i2] in ")]}":
                        depth -= 1
                        if depth < 0:
                            break
                    i2 += 1
                rest = LINE_COMMENT_RE.sub("", self._abstract_regions(body[st_end:i2], rx, sl)).strip()
                stmts.append("for _verif_once in 0..1 {\n" + rest + "\n}" if rx.get("wrap_loop") else rest)
                continue
            if isinstance(rx, dict) and "rest_of_fn_after" in rx:
                # everything in the function after the statement that begins at the unique match
                # of rx["rest_of_fn_after"] (the tail expression included).  rx["abstract"]: code
                # regions (brace-matched blocks opened at the unique match of `open`) whose body
                # is replaced by `body` - an abstraction of that region, recorded in the overlay log
                if rx["rest_of_fn_after"] is None:
                    rest = body[1:len(body) - 1]  # the whole function body
                else:
                    ms = list(re.finditer(rx["rest_of_fn_after"], body, re.S))
                    if len(ms) != 1:
                        raise AnchorLost(f"slice anchor /{rx['rest_of_fn_after']}/ matched {len(ms)} times in {sl['fn_anchor']}")
                    rest = body[end_of_statement(body, ms[0].start()):len(body) - 1]
                rest = self._abstract_regions(rest, rx, sl)
                stmts.append(LINE_COMMENT_RE.sub("", rest).strip())
                continue
            if isinstance(rx, dict):
                # brace-matched block (e.g. an `if cond { .. }` statement) starting at the unique match of rx["block"]
                ms = list(re.finditer(rx["block"], body, re.S))
                if len(ms) != 1:
                    raise AnchorLost(f"slice block /{rx['block']}/ matched {len(ms)} times in {sl['fn_anchor']}")
                bo2 = find_body_open(body, ms[0].start())
                # `pre` / `post`: glue that is NOT source text (e.g. `let x = ` .. `;` around a
                # match expression taken from a match arm); recorded in the overlay log
                stmts.append(rx.get("pre", "") + LINE_COMMENT_RE.sub("", body[ms[0].start():match_brace(body, bo2)]) + rx.get("post", ""))
                continue
            ms = list(re.finditer(rx, body, re.S))
            if len(ms) != 1:
                raise AnchorLost(f"slice statement /{rx}/ matched {len(ms)} times in {sl['fn_anchor']}")
            stmts.append(ms[0].group(0))
        if sl.get("free_fn"):
            # slice of a free function: generics and where clause copied mechanically from its signature
            sig = body_src[s0:bo]
            mfn = re.search(r"\bfn\s+\w+\s*", sig)
            generics = ""
            if mfn and mfn.end() < len(sig) and sig[mfn.end()] == "<":
                depth, k = 0, mfn.end()
                while k < len(sig):
                    if sig[k] == "<":
                        depth += 1
                    elif sig[k] == ">" and sig[k - 1] != "-":
                        depth -= 1
                        if depth == 0:
                            break
                    k += 1
                generics = sig[mfn.end():k + 1]
            mw = re.search(r"\n\s*where\b", sig)
            where = sig[mw.start():].strip() if mw else ""
            text = (f"\n// @@K-SLICE@@\n#[cfg(kani)]\n#[allow(dead_code, clippy::all)]\npub(crate) fn {sl['name']}{generics}({sl.get('params', '')}) -> {sl['ret']}\n{where}\n{{\n        "
                    + "\n        ".join(stmts) + f"\n        {sl['result']}\n}}\n")
        else:
            # enclosing impl header: nearest preceding line that starts with `impl`
            hdr_start = body_src.rfind("\nimpl", 0, s0)
            if hdr_start < 0:
                raise AnchorLost("no enclosing impl for slice")
            hdr_open = find_body_open(body_src, hdr_start + 1)
            header = body_src[hdr_start + 1:hdr_open]
            text = (f"\n// @@K-SLICE@@\n#[cfg(kani)]\n{header}{{\n    #[allow(dead_code, clippy::all)]\n    pub(crate) fn {sl['name']}({sl.get('params', '&self')}) -> {sl['ret']} {sl.get('where', '')} {{\n        "
                    + "\n        ".join(stmts) + f"\n        {sl['result']}\n    }}\n}}\n")
        with open(path, "a") as f:
            f.write(text)
        if sl not in self.slices:
            self.slices.append(sl)
        self.overlay_log.append(f"{sl['file']}: appended #[cfg(kani)] K-slice `{sl['name']}` = {len(stmts)} verbatim statement(s) of /{sl['fn_anchor']}/ (everything else in the function dropped)")
        return [sha256(x) for x in stmts]

    def drop_slices(self, rel):
        path = os.path.join(self.repo, rel)
        src = open(path).read()
        # remove every appended slice impl block (marker .. its closing brace); harness `mod`
        # lines appended after the slices stay
        while True:
            i = src.find("\n// @@K-SLICE@@")
            if i < 0:
                break
            bo = find_body_open(src, i + len("\n// @@K-SLICE@@"))
            src = src[:i] + src[match_brace(src, bo):]
        open(path, "w").write(src)

    def apply_edit(self, rel, old, new, count=1):
        """Used only for sanity mutants (thorough tier) on a scratch copy."""
        path = os.path.join(self.repo, rel)
        s = open(path).read()
        body = strip_test_module(s)
        if body.count(old) < 1:
            raise AnchorLost(f"mutant anchor not found in {rel}: {old!r}")
        idx = body.find(old)
        s = s[:idx] + new + s[idx + len(old):]
        open(path, "w").write(s)

    def remove(self):
        shutil.rmtree(self.dir, ignore_errors=True)


# --------------------------------------------------------------------------------------
# process helper: own process group, address-space cap, hard kill on timeout
# --------------------------------------------------------------------------------------

def run_proc(cmd, cwd, timeout, mem_gb=None, env=None):
    e = dict(os.environ)
    e.update(env or {})
    e.setdefault("CARGO_NET_OFFLINE", "true")

    def pre():
        os.setsid()
        if mem_gb:
            import resource
            lim = int(mem_gb * (1 << 30))
            resource.setrlimit(resource.RLIMIT_AS, (lim, lim))

    t0 = time.time()
    p = subprocess.Popen(cmd, cwd=cwd, env=e, stdout=subprocess.PIPE, stderr=subprocess.STDOUT,
                         text=True, errors="replace", preexec_fn=pre)
    try:
        out, _ = p.communicate(timeout=timeout)
        timed_out = False
    except subprocess.TimeoutExpired:
        timed_out = True
        try:
            os.killpg(p.pid, signal.SIGKILL)
        except ProcessLookupError:
            pass
        out, _ = p.communicate()
    finally:
        try:
            os.killpg(p.pid, signal.SIGKILL)
        except (ProcessLookupError, PermissionError):
            pass
    return p.returncode, out, timed_out, time.time() - t0


# --------------------------------------------------------------------------------------
# Kani output parsing
# --------------------------------------------------------------------------------------

CHECK_RE = re.compile(
    r"^Check (\d+): (\S+)\n\s*- Status: (\w+)\n\s*- Description: \"(.*)\"\n(?:\s*- Location: (.*)\n)?", re.M)


def parse_kani(out):
    checks = []
    for m in CHECK_RE.finditer(out):
        desc = m.group(4)
        if desc.startswith('"') and desc.endswith('"'):
            desc = desc[1:-1]
        checks.append({"n": int(m.group(1)), "name": m.group(2), "status": m.group(3),
                       "desc": desc, "loc": (m.group(5) or "").strip()})
    verdict = None
    if "VERIFICATION:- SUCCESSFUL" in out:
        verdict = "SUCCESSFUL"
    elif "VERIFICATION:- FAILED" in out:
        verdict = "FAILED"
    vt = re.search(r"Verification Time: ([0-9.]+)s", out)
    return checks, verdict, (float(vt.group(1)) if vt else None)


def classify_kani(unit, rc, out, timed_out, wall):
    """Turn one harness run into obligation records.

    Obligations of a harness:  one per `OBL <name>: ...` assertion, plus `no-panic`
    (every other generated check: overflow, bounds, unwrap, unreachable!, debug_assert!,
    unwinding assertions).  Covers (`COV ...`) are vacuity guards, not obligations.
    """
    uid = unit["id"]
    res = {"unit": uid, "harness": unit["harness"], "kind": unit["kind"], "wall_s": round(wall, 1),
           "obligations": [], "undecided": None, "checks_total": 0, "covers": []}
    if timed_out:
        res["undecided"] = f"timeout after {unit.get('timeout')} s"
        return res
    checks, verdict, vt = parse_kani(out)
    res["solver_time_s"] = vt
    res["checks_total"] = len(checks)
    if verdict is None or not checks:
        tail = "\n".join(out.strip().splitlines()[-25:])
        reason = "kani produced no verdict"
        if "error[E" in out or "error: could not compile" in out:
            reason = "harness does not compile against the current tree (lost anchor / changed signature)"
        elif "memory" in out.lower() and ("exhaust" in out.lower() or "bad_alloc" in out.lower()):
            reason = "memory cap"
        errs = re.findall(r"^(error(?:\[E\d+\])?:[^\n]*\n(?:[ \t]+[^\n]*\n|\d* *\|[^\n]*\n)*)", out, re.M)
        res["undecided"] = reason + "\n" + ("\n".join(errs[:8]) if errs else tail)
        return res
    obl = {}
    other_fail, other_undet, unwind_fail = [], 0, False
    for c in checks:
        d = c["desc"]
        if d.startswith("OBL "):
            name = d[4:].split(":", 1)[0].strip()
            obl.setdefault(name, []).append(c)
        elif d.startswith("COV "):
            res["covers"].append({"name": d[4:], "status": c["status"]})
        else:
            if c["status"] == "FAILURE":
                if "unwinding assertion" in d:
                    unwind_fail = True
                elif unit.get("ignore_dealloc_model") and c["name"].startswith("__rust_dealloc."):
                    # kani 0.68 quirk (see DESIGN.md 8): an EMPTY Vec produced by Clone / Vec::new()
                    # inside a large crate is sometimes modelled with capacity 1, which trips Kani's
                    # own deallocation-model assertions on drop.  The crate forbids unsafe code, so
                    # these allocator-model checks say nothing about the crate; they are excluded
                    # for the units that set this flag and the exclusion is listed in the evidence.
                    res.setdefault("ignored_checks", []).append(f"{c['name']}: {d}")
                else:
                    other_fail.append(c)
            elif c["status"] not in ("SUCCESS", "UNREACHABLE"):
                other_undet += 1  # UNDETERMINED, ERROR, UNKNOWN ...: never counted as discharged
    if unwind_fail:
        res["undecided"] = "unwinding assertion failed (bound too small for the current code) - tool limit, not a violation"
        return res
    expected = unit.get("obligations")
    if expected:
        missing = [n for n in expected if n not in obl]
        if missing:
            res["undecided"] = f"vacuity guard: named obligations not generated: {missing}"
            return res
    if not obl and not unit.get("nopanic_only"):
        res["undecided"] = "vacuity guard: harness generated no OBL assertion"
        return res
    for name, cs in sorted(obl.items()):
        sts = {c["status"] for c in cs}
        if "FAILURE" in sts:
            st = "failed"
        elif sts == {"SUCCESS"}:
            st = "discharged"
        elif "UNREACHABLE" in sts and "SUCCESS" not in sts:
            st = "vacuous"
        elif sts <= {"SUCCESS", "UNREACHABLE"}:
            st = "discharged"  # SUCCESS + UNREACHABLE instances (monomorphic copies)
        else:
            st = "undetermined"  # UNDETERMINED, ERROR, UNKNOWN ...: never counted as discharged
        if st == "vacuous" and expected and name not in expected:
            continue  # branch of a shared harness macro that does not exist for this instance
        res["obligations"].append({"id": f"{uid}::{name}", "status": st, "text": cs[0]["desc"][4:],
                                   "backend": "kani/cbmc", "kind": unit["kind"]})
    npst = "discharged"
    if other_fail:
        npst = "failed"
    elif other_undet:
        npst = "undetermined"
    res["obligations"].append({"id": f"{uid}::no-panic", "status": npst, "backend": "kani/cbmc", "kind": unit["kind"],
                               "text": f"no panic / overflow / out-of-bounds / failed unwrap in {len(checks)} generated checks",
                               "failed_checks": [f"{c['name']}: {c['desc']} @ {c['loc']}" for c in other_fail[:8]]})
    bad_cov = [c for c in res["covers"] if c["status"] != "SATISFIED"]
    if bad_cov:
        res["undecided"] = f"vacuity guard: cover not satisfied: {[c['name'] for c in bad_cov]}"
    for o in res["obligations"]:
        if o["status"] in ("vacuous", "undetermined") and not res["undecided"]:
            res["undecided"] = f"obligation {o['id']} is {o['status']}"
    return res


def kani_cmd(unit):
    # fully qualified harness path + --exact (a bare name matches every harness containing it)
    modpath = unit["file"][len("src/"):-len(".rs")].replace("/", "::")
    stem = re.sub(r"[^A-Za-z0-9_]", "_", os.path.splitext(unit["modfile"])[0])
    full = f"{modpath}::verif_kani_{stem}::{unit['harness']}"
    cmd = ["cargo", "kani", "--harness", full, "--exact"]
    z = set(unit.get("zflags", []))
    if unit.get("stubs", True):
        z.add("stubbing")
    for f in sorted(z):
        cmd += ["-Z", f]
    if unit.get("solver"):
        cmd += ["--solver", unit["solver"]]
    cmd += unit.get("extra_args", [])
    return cmd


def run_kani_unit(scratch, unit, mem_gb, timeout_scale=1.0):
    cmd = kani_cmd(unit)
    timeout = int(unit.get("timeout", 600) * timeout_scale)
    rc, out, to, wall = run_proc(cmd, scratch.repo, timeout, mem_gb=unit.get("mem_gb", mem_gb))
    res = classify_kani(dict(unit, timeout=timeout), rc, out, to, wall)
    res["cmd"] = " ".join(cmd)
    res["raw_tail"] = "\n".join(out.strip().splitlines()[-40:])
    res["raw"] = out
    return res


# --------------------------------------------------------------------------------------
# Verus: mechanical extraction
# --------------------------------------------------------------------------------------

DOC_RE = re.compile(r"^[ \t]*///.*\n|^[ \t]*//!.*\n", re.M)
ATTR_DROP_RE = re.compile(
    r"^[ \t]*#\[(?:must_use|inline|expect|allow|doc|cfg_attr|non_exhaustive|derive|serde|builder|error|from|source|default|deprecated)\b[^\n]*\]\s*\n", re.M)
# multi-line attributes:  #[expect(\n ... \n)]
ATTR_ML_RE = re.compile(r"^[ \t]*#\[(?:expect|allow|derive|cfg_attr|must_use|error)\s*\((?:[^\[\]]|\[[^\]]*\])*?\)\]\s*\n", re.M | re.S)
VIS_RE = re.compile(r"\bpub(?:\((?:crate|super|in [\w:]+)\))?\s+")
LINE_COMMENT_RE = re.compile(r"^[ \t]*//[^\n]*\n", re.M)


def verus_clean(text):
    """What the extraction drops (reported in evidence): doc comments, line comments,
    lint/derive attributes, visibility.  Body tokens are otherwise byte-identical."""
    t = DOC_RE.sub("", text)
    t = ATTR_ML_RE.sub("", t)
    t = ATTR_DROP_RE.sub("", t)
    t = LINE_COMMENT_RE.sub("", t)
    t = VIS_RE.sub("", t)
    return t


def inject_contract(fn_text, contract):
    """`fn f(..) -> T {`  =>  `fn f(..) -> (r: T) requires .. ensures .. {` (signature only)."""
    bo = find_body_open(fn_text, 0)
    sig, body = fn_text[:bo].rstrip(), fn_text[bo:]
    sig = re.sub(r"\bconst\s+fn\b", "fn", sig)
    m = re.search(r"->\s*(.+)$", sig, re.S)
    spec = ""
    if contract.get("requires"):
        spec += "\n    requires " + ",\n        ".join(contract["requires"]) + ","
    if m and contract.get("ensures"):
        ret = m.group(1).strip()
        where = ""
        wm = re.search(r"\bwhere\b", ret)
        if wm:
            where = " " + ret[wm.start():]
            ret = ret[:wm.start()].strip()
        sig = sig[: m.start()] + f"-> (r: {ret}){where}"
        spec += "\n    ensures " + ",\n        ".join(contract["ensures"]) + ","
    elif contract.get("ensures"):
        spec += "\n    ensures " + ",\n        ".join(contract["ensures"]) + ","
    if contract.get("no_unwind", False):
        spec += "\n    no_unwind"
    return sig + spec + "\n" + body


def build_verus_file(unit, root=None):
    """Returns (text, functions_under_contract, dropped, line_map) or raises AnchorLost."""
    parts, funcs, line_map = [], [], []
    dropped = ["doc comments", "line comments", "lint / derive / must_use / inline attributes",
               "visibility (pub, pub(crate))", "surrounding module and `use` lines",
               "items of the same impl that are not listed"]
    header = "use vstd::prelude::*;\nverus! {\n"
    if unit.get("prelude"):
        header += unit["prelude"] + "\n"
    cur = header
    for it in unit["items"]:
        kind = it["kind"]
        if kind == "raw":
            cur += it["text"] + "\n"
            continue
        text, sig, body, line = item_text(it["file"], it["anchor"], it.get("within"), root)
        clean = verus_clean(text)
        if kind == "type":
            if it.get("derive"):
                clean = it["derive"] + "\n" + clean
            cur += clean + "\n"
        elif kind in ("fn", "method"):
            c = it.get("contract", {})
            clean = inject_contract(clean, c) if c else clean
            for a, b in it.get("rewrites", []):
                if a not in clean:
                    raise AnchorLost(f"declared rewrite source not found in {it['name']}: {a!r}")
                clean = clean.replace(a, b)
            if kind == "method":
                clean = f"impl {it['impl']} {{\n{clean}\n}}"
            start_line = cur.count("\n") + 1
            cur += clean + "\n"
            end_line = cur.count("\n")
            line_map.append((start_line, end_line, it["name"]))
            funcs.append({"function": it["name"], "where": f"{it['file']}:{line}",
                          "body_sha256": sha256(verus_clean(body)), "contract": c,
                          "rewrites": it.get("rewrites", [])})
        elif kind == "slice":
            # one verbatim `let <name> = <expr>;` statement wrapped as a function
            m = re.search(it["stmt"], body, re.S)
            if not m:
                raise AnchorLost(f"slice statement /{it['stmt']}/ not found in {it['name']}")
            if "expr" in m.groupdict():
                # a guard expression (not a statement): wrapped verbatim as `let <result> = <expr>;`
                stmt = verus_clean(f"let {it['result']} = {m.group('expr').strip()};\n")
            else:
                stmt = verus_clean(m.group(0) + "\n")
            c = it["contract"]
            fn = (f"fn {it['name']}{it.get('generics', '')}({it['params']}) -> (r: {it['ret']})\n"
                  + ("    requires " + ", ".join(c["requires"]) + ",\n" if c.get("requires") else "")
                  + "    ensures " + ",\n        ".join(c["ensures"]) + ",\n{\n    " + stmt.strip() + "\n    " + it["result"] + "\n}\n")
            start_line = cur.count("\n") + 1
            cur += fn
            line_map.append((start_line, cur.count("\n"), it["name"]))
            funcs.append({"function": it["name"] + " (V-slice)", "where": f"{it['file']}:{line}",
                          "body_sha256": sha256(stmt), "contract": c,
                          "dropped": "everything in the enclosing function except this statement"})
    if unit.get("lemmas"):
        start_line = cur.count("\n") + 1
        cur += unit["lemmas"] + "\n"
        line_map.append((start_line, cur.count("\n"), "<lemmas>"))
    cur += "} // verus!\nfn main() {}\n"
    return cur, funcs, dropped, line_map


def run_verus_unit(unit, workdir, root=None):
    uid = unit["id"]
    res = {"unit": uid, "kind": "V", "obligations": [], "undecided": None, "functions": [], "wall_s": 0}
    try:
        text, funcs, dropped, line_map = build_verus_file(unit, root)
    except AnchorLost as e:
        res["undecided"] = f"lost anchor: {e}"
        return res
    res["functions"], res["dropped"] = funcs, dropped
    os.makedirs(workdir, exist_ok=True)
    path = os.path.join(workdir, uid.replace("/", "_").replace(".", "_") + ".rs")
    open(path, "w").write(text)
    res["file"] = path
    cmd = ["verus", path, "--output-json", "--time", "--crate-name", "vunit"] + unit.get("extra_args", [])
    rc, out, to, wall = run_proc(cmd + ["--multiple-errors", "20"], workdir, unit.get("timeout", 300), mem_gb=None)
    res["wall_s"] = round(wall, 1)
    res["cmd"] = " ".join(cmd)
    if to:
        res["undecided"] = "verus timeout"
        return res
    # stdout (JSON) and stderr (diagnostics) are interleaved in `out`; the JSON object is the
    # first top-level `{` ... matching `}` block.
    js, jspan = None, (0, 0)
    for m in re.finditer(r"^\{$", out, re.M):
        try:
            cand, end = json.JSONDecoder().raw_decode(out[m.start():])
        except json.JSONDecodeError:
            continue
        if isinstance(cand, dict) and "verification-results" in cand:
            js, jspan = cand, (m.start(), m.start() + end)
            break
    diag = (out[:jspan[0]] + out[jspan[1]:]).strip()
    res["raw_tail"] = "\n".join(diag.splitlines()[-60:])
    res["raw"] = out
    if js is None or "verification-results" not in js:
        res["undecided"] = "verus produced no result JSON (extracted text rejected?)\n" + res["raw_tail"]
        return res
    vr = js["verification-results"]
    if vr.get("encountered-vir-error") or (not vr.get("success") and vr.get("errors", 0) == 0):
        res["undecided"] = "verus rejected the extracted text (unsupported construct / type error) - tool limit\n" + res["raw_tail"]
        return res
    fb = []
    try:
        for m in js["times-ms"]["smt"]["smt-run-module-times"]:
            fb += m.get("function-breakdown", [])
    except KeyError:
        pass
    res["solver_time_s"] = js.get("times-ms", {}).get("smt", {}).get("smt-run", 0) / 1000.0
    seen = set()
    for f in fb:
        name = f["function"].split("::", 1)[-1]
        if name in seen or name.endswith(("::clone", "::eq", "::ne")):
            continue  # derive artefacts of the extraction, not contracts
        seen.add(name)
        res["obligations"].append({"id": f"{uid}::{name}", "status": "discharged" if f["success"] else "failed",
                                   "backend": "verus/z3", "kind": "V", "mode": f.get("mode:"),
                                   "time_us": f.get("time-micros"), "rlimit": f.get("rlimit"),
                                   "text": f"{f.get('mode:')} fn {name}: requires/ensures/overflow/termination obligations"})
    if "rlimit" in out and "Resource limit" in out:
        res["undecided"] = "verus resource limit (rlimit) exceeded - tool limit"
    expected = unit.get("obligations")
    if expected:
        missing = [n for n in expected if f"{uid}::{n}" not in {o['id'] for o in res['obligations']}]
        if missing:
            res["undecided"] = f"vacuity guard: expected obligations not generated: {missing}"
    if not res["obligations"]:
        res["undecided"] = "vacuity guard: verus generated no obligation"
    # attach diagnostics to failed obligations
    if any(o["status"] == "failed" for o in res["obligations"]):
        diags = re.findall(r"(error[^\n]*\n\s*-->[^\n]*\n(?:[^\n]*\n){0,8})", out)
        for o in res["obligations"]:
            if o["status"] == "failed":
                o["diagnostics"] = diags[:6]
    return res
