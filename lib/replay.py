"""Replay files for failed obligations.

K-full / K-bounded: Kani's concrete playback yields the failing input; the generated unit test is
run natively (`cargo kani playback`), i.e. the *real function* is executed by rustc-compiled
code on the concrete input and the same postcondition is evaluated.
K-callee: the counterexample is a sequence of callee outcomes; where a native scenario is
registered (unit["native_replay"]) it is run with the guarded failpoints; otherwise the file
carries the verifier's trace and the VIOLATION line ends with no-failing-input-found.
V: no counterexample exists; the file names the obligation and carries Verus' diagnostics.
"""
import json
import os
import re
import subprocess
import time

import core

VERIF = core.VERIF


def reproduced(path):
    try:
        return bool(json.load(open(path)).get("reproduced_on_real_code"))
    except Exception:
        return False


def _playback(unit, scratch, obligation, timeout=1500):
    """Returns (test_source, native_output, failed_natively) or None."""
    cmd = core.kani_cmd(unit) + ["-Z", "concrete-playback", "--concrete-playback=print"]
    rc, out, to, wall = core.run_proc(cmd, scratch.repo, timeout, mem_gb=unit.get("mem_gb", 20))
    m = re.search(r"```\s*\n(.*?#\[test\].*?)```", out, re.S)
    if not m:
        m = re.search(r"(/// Test generated for harness.*?\n}\n)", out, re.S)
    if not m:
        return None
    test_src = m.group(1)
    tn = re.search(r"fn (kani_concrete_playback_\w+)", test_src)
    if not tn:
        return None
    # the test goes into a scratch copy of the harness module (harness fns are private to it)
    target = os.path.join(scratch.repo, unit["file"])
    orig_mod = os.path.join(VERIF, "contracts", "kani", unit["modfile"])
    pb_mod = os.path.join(scratch.dir, "playback_" + unit["modfile"].replace("/", "_"))
    with open(pb_mod, "w") as f:
        f.write(open(orig_mod).read() + "\n" + test_src + "\n")
    src = open(target).read()
    if orig_mod not in src:
        return None
    open(target, "w").write(src.replace(orig_mod, pb_mod))
    # native run: the dependency stubs are only needed by kani-compiler; use the real crates
    ct = os.path.join(scratch.repo, "Cargo.toml")
    txt = open(ct).read()
    cut = txt.find("# --- added by /verif overlay")
    if cut > 0:
        open(ct, "w").write(txt[:cut])
    import shutil
    shutil.copy(os.path.join(core.REPO, "Cargo.lock"), os.path.join(scratch.repo, "Cargo.lock"))
    cmd2 = ["cargo", "kani", "playback", "-Z", "concrete-playback", "--", tn.group(1)]
    rc2, out2, to2, _ = core.run_proc(cmd2, scratch.repo, timeout, mem_gb=None)
    oname = obligation["id"].split("::", 1)[1]
    if oname == "no-panic":
        failed = "panicked at" in out2 and "test result: FAILED" in out2
    else:
        failed = ("OBL " + oname) in out2 and "test result: FAILED" in out2
    keep = [l for l in out2.splitlines() if re.search(r"panicked at|OBL |test result|^test |assertion|Failed|error(\[|:)", l)]
    return test_src, "\n".join(keep[-40:]), failed


def make_replay(prop, obligation, result, unit, scratch, tier):
    d = os.path.join(VERIF, "replays", prop)
    os.makedirs(d, exist_ok=True)
    name = re.sub(r"[^A-Za-z0-9_.-]+", "_", obligation["id"])
    path = os.path.join(d, name + ".json")
    rec = {"property": prop, "obligation": obligation["id"], "text": obligation.get("text"),
           "engine": unit["engine"], "kind": unit.get("kind", "V"), "tier": tier,
           "when": time.strftime("%Y-%m-%dT%H:%M:%S"), "cmd": result.get("cmd"),
           "reproduced_on_real_code": False,
           "verifier_output": result.get("raw_tail"),
           "failed_checks": obligation.get("failed_checks"), "diagnostics": obligation.get("diagnostics")}
    raw = result.get("raw") or ""
    # keep the failing check blocks of the verifier output
    blocks = re.findall(r"(Check \d+: [^\n]*\n\s*- Status: FAILURE\n(?:\s*- [^\n]*\n)+)", raw)
    if blocks:
        rec["failing_checks_verbatim"] = blocks[:10]
    try:
        if unit["engine"] == "kani" and unit.get("kind") in ("K-full", "K-bounded") and not unit.get("no_playback"):
            pb = _playback(unit, scratch, obligation)
            if pb:
                rec["concrete_playback_test"], rec["native_output"], rec["reproduced_on_real_code"] = pb
                rec["how"] = ("Kani concrete playback: the generated #[test] feeds the counterexample bytes to the harness, "
                              "which calls the real function natively (rustc-compiled) and evaluates the same postcondition")
        elif unit["engine"] == "kani" and unit.get("native_replay"):
            import native
            nr = native.run(unit["native_replay"], obligation, scratch)
            rec.update(nr)
        elif unit["engine"] == "verus" and unit.get("twin"):
            rec["twin_hint"] = f"K-full twin harness: {unit['twin']}"
    except Exception as e:  # replay trouble must never mask the violation itself
        rec["replay_error"] = repr(e)
    if unit["engine"] == "verus" and result.get("file"):
        try:
            rec["extracted_file"] = open(result["file"]).read()
        except OSError:
            pass
    with open(path, "w") as f:
        json.dump(rec, f, indent=1)
    return path
