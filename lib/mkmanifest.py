#!/usr/bin/env python3
"""Regenerates /verif/MANIFEST.json from the unit registry and lib/claims.py."""
import json
import os
import sys

sys.path.insert(0, os.path.dirname(os.path.abspath(__file__)))
import units as registry  # noqa: E402
import claims  # noqa: E402

VERIF = os.path.dirname(os.path.dirname(os.path.abspath(__file__)))
props = [json.loads(l) for l in open(os.path.join(VERIF, "properties.jsonl"))]
checks, na = [], []
for p in props:
    pid = p["id"]
    us = [u for u in registry.UNITS if pid in u["props"]]
    c = claims.CLAIMS.get(pid)
    if not us or not c or c.get("not_applicable"):
        na.append({"property_id": pid, "reason": (c or {}).get("not_applicable", "no contract unit built yet for this property")})
        continue
    engines = sorted({("Kani contracts on the real crate (scratch overlay)" if u["engine"] == "kani" else "Verus on mechanically extracted functions") for u in us})
    checks.append({
        "property_id": pid,
        "quick_cmd": f"bin/check {pid} --tier quick",
        "thorough_cmd": f"bin/check {pid} --tier thorough",
        "evidence_file": f"evidence/{pid}.json",
        "engine": " + ".join(engines),
        "level_claimed": {"category": "proof", "text": c["text"], "design_ref": f"DESIGN.md Section 5 ({pid})"},
        "level_note": c["note"],
        "technique": c["technique"],
    })
m = {
    "version": 1,
    "setup_cmd": "sh bin/setup",
    "hooks": claims.HOOKS,
    "engines": [
        {"name": "K", "path": "lib/core.py, contracts/kani/", "kind_free_text": "Kani 0.68 function-level contracts (harness = requires as assume, ensures as assert; callee contracts as #[kani::stub]) on the real crate, add-only overlay on a scratch copy",
         "serves_properties": sorted({p for u in registry.UNITS if u["engine"] == "kani" for p in u["props"]})},
        {"name": "V", "path": "lib/core.py, lib/units.py", "kind_free_text": "Verus requires/ensures on functions extracted verbatim from /repo on every run",
         "serves_properties": sorted({p for u in registry.UNITS if u["engine"] == "verus" for p in u["props"]})},
    ],
    "checks": checks,
    "not_applicable": na,
    "notes": claims.NOTES,
}
json.dump(m, open(os.path.join(VERIF, "MANIFEST.json"), "w"), indent=1)
print(f"MANIFEST.json: {len(checks)} checks, {len(na)} not_applicable")
