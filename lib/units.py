"""Registry of contract units.  One record = one harness (engine K) or one extracted file
(engine V).  `props` lists the properties a unit serves; `tier` is the cheapest tier that
runs it.  See DESIGN.md Section 5 for what each unit decides and what it leaves undecided.
"""

UNITS = []


def K(id, props, file, modfile, harness, kind, functions, tier="quick", timeout=600, **kw):
    u = dict(id=id, props=props, engine="kani", file=file, modfile=modfile, harness=harness, kind=kind,
             functions=functions, tier=tier, timeout=timeout)
    u.update(kw)
    UNITS.append(u)
    return u


def V(id, props, items, lemmas="", tier="quick", **kw):
    fns = [dict(file=i["file"], anchor=i["anchor"], within=i.get("within"), name=i["name"])
           for i in items if i["kind"] in ("fn", "method", "slice")]
    u = dict(id=id, props=props, engine="verus", items=items, lemmas=lemmas, tier=tier, functions=fns, kind="V")
    u.update(kw)
    UNITS.append(u)
    return u


def fn(file, name, within=None, anchor=None):
    return dict(file=file, name=(within_name(within) + "::" if within else "") + name,
                anchor=anchor or (r"\bfn\s+" + name + r"\b"), within=within)


def within_name(w):
    import re
    m = re.search(r"impl(?:<[^>]*>)?\s+(?:[\w:<>, ]+\s+for\s+)?(\w+)", w.replace("\\s+", " ").replace("\\b", "").replace("\\", ""))
    return m.group(1) if m else w


# ======================================================================================
# C17 / C14 / C19 : Hilbert curve (src/core/util/hilbert.rs)
# ======================================================================================
HIL = "src/core/util/hilbert.rs"
_hil_fn = [fn(HIL, "hilbert_index_from_quantized")]
_hil_mut = dict(file=HIL, old="bit_mask >>= 1;", new="bit_mask >>= 2;",
                desc="first `bit_mask >>= 1` of the Skilling transform becomes `>>= 2`")
for (d, b, tier, to) in [(2, 4, "quick", 300), (3, 3, "quick", 300), (5, 2, "quick", 300),
                         (1, 4, "thorough", 300), (2, 2, "thorough", 300), (2, 3, "thorough", 300),
                         (3, 2, "thorough", 300), (3, 4, "thorough", 900), (4, 2, "thorough", 300),
                         (4, 3, "thorough", 900), (4, 4, "thorough", 1500), (5, 3, "thorough", 1500),
                         (2, 8, "thorough", 900), (3, 8, "thorough", 2400), (2, 16, "thorough", 2400)]:
    K(f"hilbert.d{d}b{b}", ["C17", "C19"], HIL, "hilbert.rs", f"hilbert_d{d}_b{b}", "K-full", _hil_fn, tier=tier,
      timeout=to, obligations=["range", "injective", "adjacent"],
      claim=f"hilbert_index_from_quantized::<{d}>(q, {b}): for ALL pairs of grid cells: index < 2^(D*bits); "
            "equal index => equal cell (with range and equal cardinalities: bijection); idx(b)=idx(a)+1 => L1 distance 1",
      mutant=_hil_mut if (d, b) == (2, 4) else None)

# ======================================================================================
# C07 : move arithmetic (src/core/algorithms/flips.rs) -- engine V, all d, k
# ======================================================================================
FLIPS = "src/core/algorithms/flips.rs"
_IMPL_BFK = r"impl\s+BistellarFlipKind\s*\{"
_IMPL_FD = r"impl\s+FlipDirection\s*\{"
V("flipkind", ["C07", "C19"], [
    dict(kind="type", file=FLIPS, anchor=r"pub struct BistellarFlipKind\s*\{", name="BistellarFlipKind",
         derive="#[derive(Clone, Copy, PartialEq, Eq, Structural)]"),
    dict(kind="type", file=FLIPS, anchor=r"pub enum FlipDirection\s*\{", name="FlipDirection",
         derive="#[derive(Clone, Copy, PartialEq, Eq, Structural)]"),
    dict(kind="method", impl="BistellarFlipKind", file=FLIPS, within=_IMPL_BFK, anchor=r"\bfn\s+k\b", name="BistellarFlipKind::k",
         contract=dict(ensures=["r == self.k"])),
    dict(kind="method", impl="BistellarFlipKind", file=FLIPS, within=_IMPL_BFK, anchor=r"\bfn\s+k1\b", name="BistellarFlipKind::k1",
         contract=dict(ensures=["r.k == 1", "r.d == d"])),
    dict(kind="method", impl="BistellarFlipKind", file=FLIPS, within=_IMPL_BFK, anchor=r"\bfn\s+k2\b", name="BistellarFlipKind::k2",
         contract=dict(ensures=["r.k == 2", "r.d == d"])),
    dict(kind="method", impl="BistellarFlipKind", file=FLIPS, within=_IMPL_BFK, anchor=r"\bfn\s+k3\b", name="BistellarFlipKind::k3",
         contract=dict(ensures=["r.k == 3", "r.d == d"])),
    dict(kind="method", impl="BistellarFlipKind", file=FLIPS, within=_IMPL_BFK, anchor=r"\bfn\s+inverse\b", name="BistellarFlipKind::inverse",
         contract=dict(requires=["self.d <= usize::MAX - 2", "1 <= self.k <= self.d + 1"],
                       ensures=["r.d == self.d", "r.k == self.d + 2 - self.k", "1 <= r.k <= r.d + 1",
                                "r.k + self.k == self.d + 2"])),
    dict(kind="method", impl="FlipDirection", file=FLIPS, within=_IMPL_FD, anchor=r"\bfn\s+inverse\b", name="FlipDirection::inverse",
         contract=dict(ensures=["r != self", "(self is Forward) ==> (r is Inverse)", "(self is Inverse) ==> (r is Forward)"])),
], lemmas="""
// a k-move removes k cells and creates d+2-k: the inverse move swaps the two numbers, and
// applying `inverse` twice is the identity (checked on the exec code through its contract).
fn lemma_inverse_involution(x: BistellarFlipKind) -> (r: BistellarFlipKind)
    requires x.d <= usize::MAX - 2, 1 <= x.k <= x.d + 1,
    ensures r == x,
{
    let y = x.inverse();
    y.inverse()
}
fn lemma_cell_count_delta(x: BistellarFlipKind) -> (r: (usize, usize))
    requires x.d <= usize::MAX - 2, 1 <= x.k <= x.d + 1,
    ensures r.0 == x.k, r.1 == x.d + 2 - x.k, r.0 + r.1 == x.d + 2,
{
    let removed = x.k();
    let created = x.inverse().k();
    (removed, created)
}
fn lemma_direction_involution(x: FlipDirection) -> (r: FlipDirection)
    ensures r == x,
{
    x.inverse().inverse()
}
fn lemma_named_moves(d: usize) -> (r: (usize, usize, usize))
    requires 2 <= d <= usize::MAX - 2,
    ensures r.0 == d + 1, r.1 == d, r.2 == d - 1,
{
    (BistellarFlipKind::k1(d).inverse().k(), BistellarFlipKind::k2(d).inverse().k(), BistellarFlipKind::k3(d).inverse().k())
}
""",
  claim="BistellarFlipKind::{k,k1,k2,k3,inverse}, FlipDirection::inverse for every d <= usize::MAX-2, 1<=k<=d+1: "
        "inverse.k == d+2-k, involution, k + inverse.k == d+2, no overflow",
  mutant=dict(file=FLIPS, old="k: self.d + 2 - self.k,", new="k: self.d + 1 - self.k,",
              desc="inverse move count d+2-k becomes d+1-k"))
