"""Registry of contract units.  One record = one harness (engine K) or one extracted file
(engine V).  `props` lists the properties a unit serves; `tier` is the cheapest tier that
runs it.  See DESIGN.md Section 5 for what each unit decides and what it leaves undecided.
"""

UNITS = []


def K(id, props, file, modfile, harness, kind, functions, tier="quick", timeout=600, **kw):
    u = dict(id=id, props=props, engine="kani", file=file, modfile=modfile, harness=harness, kind=kind,
             functions=functions, tier=tier, timeout=timeout)
    u.update(kw)
    UNITS.append(u)
    return u


def V(id, props, items, lemmas="", tier="quick", **kw):
    fns = [dict(file=i["file"], anchor=i["anchor"], within=i.get("within"), name=i["name"])
           for i in items if i["kind"] in ("fn", "method", "slice")]
    u = dict(id=id, props=props, engine="verus", items=items, lemmas=lemmas, tier=tier, functions=fns, kind="V")
    u.update(kw)
    UNITS.append(u)
    return u


def fn(file, name, within=None, anchor=None):
    return dict(file=file, name=(within_name(within) + "::" if within else "") + name,
                anchor=anchor or (r"\bfn\s+" + name + r"\b"), within=within)


def within_name(w):
    import re
    m = re.search(r"impl(?:<[^>]*>)?\s+(?:[\w:<>, ]+\s+for\s+)?(\w+)", w.replace("\\s+", " ").replace("\\b", "").replace("\\", ""))
    return m.group(1) if m else w


# ======================================================================================
# C17 / C14 / C19 : Hilbert curve (src/core/util/hilbert.rs)
# ======================================================================================
HIL = "src/core/util/hilbert.rs"
_hil_fn = [fn(HIL, "hilbert_index_from_quantized")]
_hil_mut = dict(file=HIL, old="bit_mask >>= 1;", new="bit_mask >>= 2;",
                desc="first `bit_mask >>= 1` of the Skilling transform becomes `>>= 2`")
for (d, b, tier, to) in [(2, 4, "quick", 300), (3, 3, "quick", 300), (5, 2, "quick", 300),
                         (1, 4, "thorough", 300), (2, 2, "thorough", 300), (2, 3, "thorough", 300),
                         (3, 2, "thorough", 300), (3, 4, "thorough", 900), (4, 2, "thorough", 300),
                         (4, 3, "thorough", 900), (4, 4, "thorough", 1500), (5, 3, "thorough", 1500),
                         (2, 8, "thorough", 900), (3, 8, "thorough", 2400), (2, 16, "thorough", 2400)]:
    K(f"hilbert.d{d}b{b}", ["C17", "C19"], HIL, "hilbert.rs", f"hilbert_d{d}_b{b}", "K-full", _hil_fn, tier=tier,
      timeout=to, obligations=["range", "injective", "adjacent"],
      claim=f"hilbert_index_from_quantized::<{d}>(q, {b}): for ALL pairs of grid cells: index < 2^(D*bits); "
            "equal index => equal cell (with range and equal cardinalities: bijection); idx(b)=idx(a)+1 => L1 distance 1",
      mutant=_hil_mut if (d, b) == (2, 4) else None)

# ======================================================================================
# C07 : move arithmetic (src/core/algorithms/flips.rs) -- engine V, all d, k
# ======================================================================================
FLIPS = "src/core/algorithms/flips.rs"
_IMPL_BFK = r"impl\s+BistellarFlipKind\s*\{"
_IMPL_FD = r"impl\s+FlipDirection\s*\{"
V("flipkind", ["C07", "C19"], [
    dict(kind="type", file=FLIPS, anchor=r"pub struct BistellarFlipKind\s*\{", name="BistellarFlipKind",
         derive="#[derive(Clone, Copy, PartialEq, Eq, Structural)]"),
    dict(kind="type", file=FLIPS, anchor=r"pub enum FlipDirection\s*\{", name="FlipDirection",
         derive="#[derive(Clone, Copy, PartialEq, Eq, Structural)]"),
    dict(kind="method", impl="BistellarFlipKind", file=FLIPS, within=_IMPL_BFK, anchor=r"\bfn\s+k\b", name="BistellarFlipKind::k",
         contract=dict(ensures=["r == self.k"])),
    dict(kind="method", impl="BistellarFlipKind", file=FLIPS, within=_IMPL_BFK, anchor=r"\bfn\s+k1\b", name="BistellarFlipKind::k1",
         contract=dict(ensures=["r.k == 1", "r.d == d"])),
    dict(kind="method", impl="BistellarFlipKind", file=FLIPS, within=_IMPL_BFK, anchor=r"\bfn\s+k2\b", name="BistellarFlipKind::k2",
         contract=dict(ensures=["r.k == 2", "r.d == d"])),
    dict(kind="method", impl="BistellarFlipKind", file=FLIPS, within=_IMPL_BFK, anchor=r"\bfn\s+k3\b", name="BistellarFlipKind::k3",
         contract=dict(ensures=["r.k == 3", "r.d == d"])),
    dict(kind="method", impl="BistellarFlipKind", file=FLIPS, within=_IMPL_BFK, anchor=r"\bfn\s+inverse\b", name="BistellarFlipKind::inverse",
         contract=dict(requires=["self.d <= usize::MAX - 2", "1 <= self.k <= self.d + 1"],
                       ensures=["r.d == self.d", "r.k == self.d + 2 - self.k", "1 <= r.k <= r.d + 1",
                                "r.k + self.k == self.d + 2"])),
    dict(kind="method", impl="FlipDirection", file=FLIPS, within=_IMPL_FD, anchor=r"\bfn\s+inverse\b", name="FlipDirection::inverse",
         contract=dict(ensures=["r != self", "(self is Forward) ==> (r is Inverse)", "(self is Inverse) ==> (r is Forward)"])),
], lemmas="""
// a k-move removes k cells and creates d+2-k: the inverse move swaps the two numbers, and
// applying `inverse` twice is the identity (checked on the exec code through its contract).
fn lemma_inverse_involution(x: BistellarFlipKind) -> (r: BistellarFlipKind)
    requires x.d <= usize::MAX - 2, 1 <= x.k <= x.d + 1,
    ensures r == x,
{
    let y = x.inverse();
    y.inverse()
}
fn lemma_cell_count_delta(x: BistellarFlipKind) -> (r: (usize, usize))
    requires x.d <= usize::MAX - 2, 1 <= x.k <= x.d + 1,
    ensures r.0 == x.k, r.1 == x.d + 2 - x.k, r.0 + r.1 == x.d + 2,
{
    let removed = x.k();
    let created = x.inverse().k();
    (removed, created)
}
fn lemma_direction_involution(x: FlipDirection) -> (r: FlipDirection)
    ensures r == x,
{
    x.inverse().inverse()
}
fn lemma_named_moves(d: usize) -> (r: (usize, usize, usize))
    requires 2 <= d <= usize::MAX - 2,
    ensures r.0 == d + 1, r.1 == d, r.2 == d - 1,
{
    (BistellarFlipKind::k1(d).inverse().k(), BistellarFlipKind::k2(d).inverse().k(), BistellarFlipKind::k3(d).inverse().k())
}
""",
  claim="BistellarFlipKind::{k,k1,k2,k3,inverse}, FlipDirection::inverse for every d <= usize::MAX-2, 1<=k<=d+1: "
        "inverse.k == d+2-k, involution, k + inverse.k == d+2, no overflow",
  mutant=dict(file=FLIPS, old="k: self.d + 2 - self.k,", new="k: self.d + 1 - self.k,",
              desc="inverse move count d+2-k becomes d+1-k"))

# ======================================================================================
# C02 : what is checked, and when  (decision tables, engine V)
# ======================================================================================
OPS = "src/core/operations.rs"
TRI = "src/core/triangulation.rs"
DT = "src/core/delaunay_triangulation.rs"
EULER = "src/topology/characteristics/euler.rs"
_DER = "#[derive(Clone, Copy, PartialEq, Eq, Structural)]"
_T_SUSP = dict(kind="type", file=OPS, anchor=r"pub struct SuspicionFlags\s*\{", name="SuspicionFlags", derive="#[derive(Clone, Copy)]")
_T_VP = dict(kind="type", file=TRI, anchor=r"pub enum ValidationPolicy\s*\{", name="ValidationPolicy", derive=_DER)
_T_TG = dict(kind="type", file=TRI, anchor=r"pub enum TopologyGuarantee\s*\{", name="TopologyGuarantee", derive=_DER)
_T_TOP = dict(kind="type", file=OPS, anchor=r"pub enum TopologicalOperation\s*\{", name="TopologicalOperation", derive=_DER)
_IMPL_SF = r"impl\s+SuspicionFlags\s*\{"
_IMPL_VP = r"impl\s+ValidationPolicy\s*\{"
_IMPL_TG = r"impl\s+TopologyGuarantee\s*\{"
_IMPL_TOP = r"impl\s+TopologicalOperation\s*\{"
_SUSP_SPEC = "(self.perturbation_used || self.empty_conflict_region || self.fallback_star_split || self.repair_loop_entered || self.cells_removed || self.neighbor_pointers_rebuilt)"
_SUSP_ARG = _SUSP_SPEC.replace("self.", "suspicion.")


def M(impl, file, within, name, contract, **kw):
    return dict(kind="method", impl=impl, file=file, within=within, anchor=r"\bfn\s+" + name + r"\b",
                name=f"{impl}::{name}", contract=contract, **kw)


V("policy", ["C02", "C05"], [
    _T_SUSP, _T_VP, _T_TG,
    M("SuspicionFlags", OPS, _IMPL_SF, "is_suspicious", dict(ensures=[f"r == {_SUSP_SPEC}"])),
    M("ValidationPolicy", TRI, _IMPL_VP, "should_validate", dict(ensures=[
        "(self is Always) ==> r", "(self is Never) ==> !r",
        f"(self is OnSuspicion) ==> (r == {_SUSP_ARG})",
        f"(self is DebugOnly) ==> ({_SUSP_ARG} ==> r)"])),
    M("TopologyGuarantee", TRI, _IMPL_TG, "requires_vertex_links_during_insertion",
      dict(ensures=["r == (self is PLManifoldStrict)"])),
    M("TopologyGuarantee", TRI, _IMPL_TG, "requires_vertex_links_at_completion",
      dict(ensures=["r == ((self is PLManifold) || (self is PLManifoldStrict))"])),
    M("TopologyGuarantee", TRI, _IMPL_TG, "requires_ridge_links",
      dict(ensures=["r == ((self is PLManifold) || (self is PLManifoldStrict))"])),
    M("TopologyGuarantee", TRI, _IMPL_TG, "is_compatible_with_policy",
      dict(ensures=["r == ((self is Pseudomanifold) || !(policy is Never))"])),
], lemmas="""
// every suspicious event forces validation under OnSuspicion; Strict implies everything PLManifold checks
fn lemma_strict_is_strongest(g: TopologyGuarantee) -> (r: (bool, bool, bool))
    ensures (g is PLManifoldStrict) ==> (r.0 && r.1 && r.2),
            (g is PLManifold) ==> (!r.0 && r.1 && r.2),
            (g is Pseudomanifold) ==> (!r.0 && !r.1 && !r.2),
{
    (g.requires_vertex_links_during_insertion(), g.requires_vertex_links_at_completion(), g.requires_ridge_links())
}
""",
  claim="SuspicionFlags::is_suspicious == disjunction of all six flags; ValidationPolicy::should_validate table; "
        "TopologyGuarantee::requires_* tables (Strict => all three, PLManifold => ridge links + completion, Pseudomanifold => none)",
  mutant=dict(file=OPS, old="            || self.cells_removed\n", new="", desc="cells_removed dropped from is_suspicious"))

# ======================================================================================
# C08 / C06 : admissibility gate and repair decision (engine V)
# ======================================================================================
V("admissibility", ["C08", "C06"], [
    _T_TG, _T_TOP,
    M("TopologicalOperation", OPS, _IMPL_TOP, "requires_pl_manifold", dict(ensures=["r == (self is CavityFlip)"])),
    M("TopologicalOperation", OPS, _IMPL_TOP, "is_admissible_under",
      dict(ensures=["r == !((topology is Pseudomanifold) && (self is CavityFlip))"])),
    M("TopologicalOperation", OPS, _IMPL_TOP, "required_topology",
      dict(ensures=["(self is CavityFlip) ==> (r is PLManifold)", "!(self is CavityFlip) ==> (r is Pseudomanifold)"])),
    dict(kind="type", file=OPS, anchor=r"pub enum RepairSkipReason\s*\{", name="RepairSkipReason"),
    dict(kind="type", file=OPS, anchor=r"pub enum RepairDecision\s*\{", name="RepairDecision"),
    dict(kind="type", file=DT, anchor=r"pub enum DelaunayRepairPolicy\s*\{", name="DelaunayRepairPolicy", derive="#[derive(Clone, Copy)]"),
    dict(kind="type", file=DT, anchor=r"pub enum DelaunayCheckPolicy\s*\{", name="DelaunayCheckPolicy", derive="#[derive(Clone, Copy)]"),
    M("DelaunayRepairPolicy", DT, r"impl\s+DelaunayRepairPolicy\s*\{", "should_repair",
      dict(ensures=["(self is Never) ==> !r", "(self is EveryInsertion) ==> r"])),
    M("DelaunayCheckPolicy", DT, r"impl\s+DelaunayCheckPolicy\s*\{", "should_check",
      dict(ensures=["(self is EndOnly) ==> !r"])),
    M("DelaunayRepairPolicy", OPS, r"impl\s+DelaunayRepairPolicy\s*\{", "decide",
      dict(ensures=["(r is Proceed) ==> !((topology is Pseudomanifold) && (operation is CavityFlip))",
                    "(self is Never) ==> !(r is Proceed)",
                    "(self is EveryInsertion) ==> ((r is Proceed) == !((topology is Pseudomanifold) && (operation is CavityFlip)))",
                    "(r is Skip) ==> ((r->reason is PolicyDisabled) || ((r->reason is Inadmissible) && (topology is Pseudomanifold) && (operation is CavityFlip)))"])),
], prelude="use std::num::NonZeroUsize;", lemmas="""
// an operation is always admissible under the guarantee it says it requires, and under anything stronger
fn lemma_required_is_admissible(op: TopologicalOperation) -> (r: (bool, bool, bool))
    ensures r.0, r.1, r.2,
{
    (op.is_admissible_under(op.required_topology()),
     op.is_admissible_under(TopologyGuarantee::PLManifold),
     op.is_admissible_under(TopologyGuarantee::PLManifoldStrict))
}
""",
  claim="TopologicalOperation::{requires_pl_manifold,is_admissible_under,required_topology}: admissible <=> not (Pseudomanifold and CavityFlip); "
        "DelaunayRepairPolicy::decide == Proceed only if admissible, never under policy Never; should_repair / should_check tables (EveryN arithmetic: K-full unit everyn)",
  mutant=dict(file=OPS, old="TopologyGuarantee::Pseudomanifold => !self.requires_pl_manifold(),",
              new="TopologyGuarantee::Pseudomanifold => self.requires_pl_manifold(),", desc="admissibility gate inverted"))

V("maxflips", ["C08", "C19"], [
    dict(kind="fn", file=FLIPS, anchor=r"\bfn\s+default_max_flips\b", name="default_max_flips",
         contract=dict(ensures=["r >= 512", "D >= 4 ==> r >= 4096",
                                "D <= 2 && cell_count * (D + 1) * 4 <= usize::MAX ==> r == (if cell_count * (D + 1) * 4 >= 512 { cell_count * (D + 1) * 4 } else { 512 })",
                                ])),
], lemmas="""
fn lemma_budget_monotone<const D: usize>(a: usize, b: usize) -> (r: (usize, usize))
    requires a <= b, D <= 2, b * (D + 1) * 4 <= usize::MAX,
    ensures r.0 <= r.1,
{
    assert(a * (D + 1) * 4 <= b * (D + 1) * 4) by (nonlinear_arith) requires a <= b;
    (default_max_flips::<D>(a), default_max_flips::<D>(b))
}
""",
  claim="default_max_flips::<D>(cell_count): finite, >= 512 (D >= 4 debug: >= 4096), never overflows, monotone while unsaturated (D <= 2)",
  mutant=dict(file=FLIPS, old="    base.max(512)", new="    base.min(512)", desc="budget floor becomes a cap"))

# ======================================================================================
# C15 : expected Euler characteristic table (engine V)
# ======================================================================================
V("chi", ["C15"], [
    dict(kind="type", file=EULER, anchor=r"pub enum TopologyClassification\s*\{", name="TopologyClassification"),
    dict(kind="fn", file=EULER, anchor=r"\bfn\s+expected_chi_for\b", name="expected_chi_for",
         contract=dict(ensures=[
             "(classification is Empty) ==> r == Some(0isize)",
             "(classification is SingleSimplex) ==> r == Some(1isize)",
             "(classification is Ball) ==> r == Some(1isize)",
             "(classification is Unknown) ==> r is None",
             "(classification is ClosedSphere) ==> r == Some(if classification->ClosedSphere_0 % 2 == 0 { 2isize } else { 0isize })"])),
], claim="expected_chi_for: Ball / SingleSimplex -> 1, Empty -> 0, ClosedSphere(d) -> 1 + (-1)^d, Unknown -> None",
  mutant=dict(file=EULER, old="TopologyClassification::SingleSimplex(_) | TopologyClassification::Ball(_) => Some(1),",
              new="TopologyClassification::SingleSimplex(_) => Some(1),\n        TopologyClassification::Ball(_) => Some(0),",
              desc="a ball is expected to have chi = 0"))

# ======================================================================================
# C01 : accounting predicates (engine V)
# ======================================================================================
_IMPL_IS = r"impl\s+InsertionStatistics\s*\{"
V("insertstats", ["C01"], [
    dict(kind="type", file=OPS, anchor=r"pub enum InsertionResult\s*\{", name="InsertionResult", derive=_DER),
    dict(kind="type", file=OPS, anchor=r"pub struct InsertionStatistics\s*\{", name="InsertionStatistics", derive="#[derive(Clone, Copy)]"),
    M("InsertionStatistics", OPS, _IMPL_IS, "used_perturbation", dict(ensures=["r == (self.attempts > 1)"])),
    M("InsertionStatistics", OPS, _IMPL_IS, "success", dict(ensures=["r == (self.result is Inserted)"])),
    M("InsertionStatistics", OPS, _IMPL_IS, "skipped", dict(ensures=["r == !(self.result is Inserted)"])),
    M("InsertionStatistics", OPS, _IMPL_IS, "skipped_duplicate", dict(ensures=["r == (self.result is SkippedDuplicate)"])),
], lemmas="""
fn lemma_success_xor_skipped(s: InsertionStatistics) -> (r: (bool, bool, bool))
    ensures r.0 != r.1, r.2 ==> r.1,
{
    (s.success(), s.skipped(), s.skipped_duplicate())
}
""",
  claim="InsertionStatistics: success XOR skipped; skipped_duplicate => skipped",
  mutant=dict(file=OPS, old="            InsertionResult::SkippedDuplicate | InsertionResult::SkippedDegeneracy\n",
              new="            InsertionResult::SkippedDuplicate\n", desc="SkippedDegeneracy no longer counts as skipped"))

# ======================================================================================
# C16 : toroidal wrapping contract
# ======================================================================================
TOR = "src/topology/spaces/toroidal.rs"
GTM = "src/topology/traits/global_topology_model.rs"
_REM = "f64::rem_euclid(x, p) replaced by its contract: x, p finite, p > 0 => 0 <= r <= p, and r == x when 0 <= x < p (CBMC's double % is imprecise); congruence r = x (mod p) is NOT assumed and not proved"
for d, tier in [(2, "quick"), (3, "thorough")]:
    K(f"wrap_coord.d{d}", ["C16", "C19"], TOR, "toroidal.rs", f"wrap_coord_d{d}", "K-callee",
      [fn(TOR, "wrap_coord", within=r"impl<const D: usize>\s+ToroidalSpace<D>\s*\{")], tier=tier, timeout=300,
      obligations=["some-implies-valid", "lower", "upper", "inrange-unchanged", "idempotent", "none-implies-invalid"],
      assumed=[_REM],
      claim="ToroidalSpace::wrap_coord for every f64 value, period and axis: Some(w) => 0 <= w < period, in-range values unchanged, idempotent; None <=> axis/value/period unusable",
      mutant=dict(file=TOR, old="if !period.is_finite() || period <= 0.0 {", new="if !period.is_finite() || period < 0.0 {",
                  desc="zero period accepted") if d == 2 else None)
    K(f"canon_space.d{d}", ["C16"], TOR, "toroidal.rs", f"canonicalize_point_d{d}", "K-callee",
      [fn(TOR, "canonicalize_point", within=r"impl<const D: usize>\s+TopologicalSpace\s+for\s+ToroidalSpace<D>\s*\{")], tier=tier, timeout=300,
      obligations=["in-box", "inrange-unchanged"], assumed=[_REM],
      claim="ToroidalSpace::canonicalize_point: every finite coordinate on a usable axis ends in [0, period); in-range coordinates unchanged")

for nm, d, t, tier in [("d2_f64", 2, "f64", "quick"), ("d3_f64", 3, "f64", "thorough"), ("d2_f32", 2, "f32", "thorough")]:
    K(f"canon_model.{nm}", ["C16", "C19"], GTM, "gtm.rs", f"canon_model_{nm}", "K-callee",
      [fn(GTM, "canonicalize_point_in_place", within=r"impl<const D: usize>\s+GlobalTopologyModel<D>\s+for\s+ToroidalModel<D>\s*\{"),
       fn(GTM, "validate_configuration", within=r"impl<const D: usize>\s+GlobalTopologyModel<D>\s+for\s+ToroidalModel<D>\s*\{")],
      tier=tier, timeout=600, assumed=[_REM],
      obligations=["ok-implies-valid", "in-box", "inrange-unchanged", "idempotent-ok", "idempotent", "err-implies-invalid", "badconfig-untouched"],
      claim=f"ToroidalModel::<{d}>::canonicalize_point_in_place::<{t}> (the wrapper the builder and insert use): Ok <=> finite coords and usable periods; "
            "Ok => every coordinate in [0, period), in-range unchanged, idempotent; invalid configuration => point untouched",
      mutant=dict(file=GTM, old="Some(w) if w >= period => T::zero(),", new="Some(w) if w > period => T::zero(),",
                  desc="the half-open guard `>=` becomes `>`") if nm == "d2_f64" else None)

# ======================================================================================
# C02 / C05 / C15 : validator plumbing in src/core/triangulation.rs (K-callee)
# ======================================================================================
_TRI_IMPL2 = None
_ASSUME_VALIDATORS = ("callee contracts assumed (stubs): each sub-validator returns any verdict and changes no state; "
                      "bodies of the sub-validators (storage code) are NOT verified")
K("tri.validate_after_insertion", ["C02", "C19"], TRI, "triangulation.rs", "validate_after_insertion_contract", "K-callee",
  [fn(TRI, "validate_after_insertion")], timeout=300,
  obligations=["bootstrap", "non-negotiable", "policy-full", "pseudo-hole", "verdict-full", "verdict-links", "err-origin"],
  assumed=[_ASSUME_VALIDATORS, "ValidationPolicy::should_validate replaced by its Verus-proved table in the harness spec (dev profile: DebugOnly => true)"],
  claim="Triangulation::validate_after_insertion for every policy x guarantee x suspicion vector x cell count: with cells and a PL guarantee exactly one of "
        "{Level 3, required-link validation} runs and its verdict is returned; should_validate => Level 3; Pseudomanifold && !should_validate => Ok unchecked (pinned)",
  mutant=dict(file=TRI, old="        if !should_validate && !requires_link_checks {", new="        if !should_validate {",
              desc="required link checks skipped whenever the policy does not ask for validation"))
K("tri.required_links", ["C02", "C05"], TRI, "triangulation.rs", "required_links_contract", "K-callee",
  [fn(TRI, "validate_required_topology_links")], timeout=600,
  obligations=["nothing-required", "conjunction", "all-consulted", "err-origin"], assumed=[_ASSUME_VALIDATORS],
  claim="validate_required_topology_links: Ok <=> facet degree, closed boundary, ridge links, (Strict: vertex links), orientation all pass; none for Pseudomanifold / no cells",
  mutant=dict(file=TRI, old="            validate_ridge_links(&self.tds).map_err(TriangulationValidationError::from)?;\n            true\n        } else {",
              new="            true\n        } else {", desc="ridge-link check dropped from the PLManifold branch"))
K("tri.level3", ["C05", "C15"], TRI, "triangulation.rs", "level3_conjunction_contract", "K-callee",
  [fn(TRI, "is_valid", anchor=r"pub fn is_valid\(&self\) -> Result<\(\), TriangulationValidationError>")], timeout=1200, tier_for={"C15": "thorough"},
  obligations=["conjunction", "all-consulted", "err-origin"], assumed=[_ASSUME_VALIDATORS],
  claim="Triangulation::is_valid == conjunction of its eight invariants incl. the Euler clause (chi == expected when known), guarantee-dependent link checks",
  mutant=dict(file=TRI, old="        self.validate_no_isolated_vertices()?;\n\n        // 4. Euler", new="        // 4. Euler",
              desc="isolated-vertex invariant dropped from Level 3"))
K("tri.validate", ["C05"], TRI, "triangulation.rs", "validate_cumulative_contract", "K-callee",
  [fn(TRI, "validate", anchor=r"pub fn validate\(&self\) -> Result<\(\), TriangulationValidationError>")], timeout=600,
  obligations=["conjunction", "all-consulted", "err-origin"], assumed=[_ASSUME_VALIDATORS],
  claim="Triangulation::validate == Tds::validate && is_valid && validate_at_completion",
  mutant=dict(file=TRI, old="        self.is_valid()?;\n        self.validate_at_completion()", new="        self.is_valid()?;\n        Ok(())",
              desc="completion-time vertex-link check dropped from cumulative validation"))
K("tri.validate_at_completion", ["C05", "C02"], TRI, "triangulation.rs", "validate_at_completion_contract", "K-callee",
  [fn(TRI, "validate_at_completion")], timeout=600,
  obligations=["completion-links", "links-consulted", "completion-skip"], assumed=[_ASSUME_VALIDATORS],
  claim="validate_at_completion: vertex-link validation decides iff guarantee in {PLManifold, Strict} and cells > 0")

# ======================================================================================
# C05 / C11 : Tds validators and generation counter (K-callee / K-full)
# ======================================================================================
TDS = "src/core/triangulation_data_structure.rs"
K("tds.level2", ["C05"], TDS, "tds.rs", "level2_conjunction_contract", "K-callee",
  [fn(TDS, "is_valid", anchor=r"pub fn is_valid\(&self\) -> Result<\(\), TdsValidationError>")], timeout=900,
  obligations=["conjunction", "all-consulted", "err-origin", "fast-fail"], assumed=[_ASSUME_VALIDATORS],
  bounded="the facet map handed to the sub-validators is the empty map (drop loop unwound once, unwinding assertion on)",
  claim="Tds::is_valid == conjunction of its nine structural invariants, consulted in order, fast-fail",
  mutant=dict(file=TDS, old="        self.validate_no_duplicate_cells()?;\n\n        // Build the facet-to-cells map once and share", new="        // Build the facet-to-cells map once and share",
              desc="duplicate-cell invariant dropped from Level 2"))
K("tds.generation", ["C11"], TDS, "tds.rs", "generation_contract", "K-full",
  [fn(TDS, "bump_generation"), fn(TDS, "generation", anchor=r"pub fn generation\(&self\) -> u64"), fn(TDS, "mark_topology_modified")], timeout=300,
  obligations=["read", "bump", "mark", "queries-pure"],
  claim="Tds::{bump_generation, mark_topology_modified}: exactly +1 for every counter value; generation() reads it; queries do not bump",
  mutant=dict(file=TDS, old="        self.generation.fetch_add(1, Ordering::Relaxed);", new="        self.generation.fetch_add(0, Ordering::Relaxed);",
              desc="bump_generation no longer changes the counter"))

K("tds.clone_shares_generation", ["C11"], TDS, "tds.rs", "clone_shares_generation_contract", "K-full",
  [dict(file=TDS, name="<Tds as Clone>::clone (derived)", anchor=r"pub struct Tds<T, U, V, const D: usize>"), fn(TDS, "bump_generation"), fn(TDS, "generation", anchor=r"pub fn generation\(&self\) -> u64")],
  timeout=900, obligations=["clone-reads-same", "clone-shares-counter", "rollback-keeps-bumps"],
  assumed=["empty Tds (the counter is independent of the stored cells); the snapshot restore is modelled by mem::replace (what `self.tds = tds_snapshot` does, minus dropping the old value)"],
  claim="a Tds snapshot (clone) shares the generation counter: bumps made by a failed operation survive the rollback `tds = snapshot`, so views created before it report staleness, for every counter value")

# ======================================================================================
# C03 / C08 : three-attempt repair protocol (K-callee)
# ======================================================================================
_ASSUME_ATTEMPT = ("callee contracts assumed (stubs): a repair attempt may perform any flips and return Ok / Err(NonConvergent) / any other Err; "
                   "verify_repair_postcondition is pure and returns any verdict; bodies NOT verified")
for d, tier, to in [(2, "quick", 900), (3, "thorough", 1200), (1, "thorough", 300)]:
    K(f"repair.protocol.d{d}", ["C03", "C08", "C19"] if d > 1 else ["C08", "C19"], FLIPS, "flips.rs", f"repair_protocol_d{d}", "K-callee",
      [fn(FLIPS, "repair_delaunay_with_flips_k2_k3"), fn(FLIPS, "repair_delaunay_with_flips_k2_k3_attempts")], tier=tier, timeout=to,
      assumed=[_ASSUME_ATTEMPT],
      obligations=["low-dim"] if d < 2 else ["three-attempts", "attempt-order", "clean-start", "engine-by-dim", "ok-certified", "ok-certified-state", "err-unchanged"],
      claim="repair_delaunay_with_flips_k2_k3 for EVERY outcome sequence of its attempts and postcondition checks: Ok only if the last event is a passing "
            "postcondition check on the state returned; <= 3 attempts, each from the pre-repair state; Err => triangulation unchanged",
      mutant=dict(file=FLIPS, old="            *tds = tds_snapshot.clone();\n            let retry_seed_cells = None;", new="            let retry_seed_cells = None;",
                  desc="snapshot restore before attempt 2 deleted") if d == 2 else None)

_SL_GUARD = dict(file=FLIPS, fn_anchor=r"fn apply_bistellar_flip_with_k<", free_fn=True, name="verif_slice_inserted_simplex_guard",
                 params="tds: &Tds<K::Scalar, U, V, D>, k_move: usize, removed_face_vertices: &[VertexKey], inserted_face_vertices: &[VertexKey], removed_cells: &CellKeyBuffer",
                 ret="Result<(), FlipError>", stmts=[dict(block=r"if k_move >= 2\s*&& k_move < D\s*&& let Some\(existing_cell\) =")], result="Ok(())")
for _nm, _har, _obl in (("kept", "inserted_simplex_guard_contract", ["setup", "existing-simplex-refused", "witness"]),
                        ("removed", "inserted_simplex_guard_removed_contract", ["setup", "removed-cells-do-not-count"])):
    K("flip.inserted_simplex_guard." + _nm, ["C07"], FLIPS, "flips_guard.rs", _har, "K-slice",
      [dict(file=FLIPS, name="apply_bistellar_flip_with_k (K-slice: the inserted-simplex legality guard)", anchor=r"fn apply_bistellar_flip_with_k<"), fn(FLIPS, "find_cell_containing_simplex")],
      slices=[_SL_GUARD], extra_attach=[("src/core/cell.rs", "cell_helper.rs"), (TDS, "tds_helper.rs")], timeout=7000, mem_gb=24, no_playback=True,
      bounded="D = 3, one stored cell {1,2,3,4}, inserted simplex {1,2}, removed face {3,5,6}; k_move in 1..=4",
      assumed=["K-slice: the `if k_move >= 2 && k_move < D && let Some(existing_cell) = .. { .. }` statement of apply_bistellar_flip_with_k, verbatim; find_cell_containing_simplex is real code; "
               "Tds::find_cells_containing_vertex_by_key (stub): the star of a vertex in THIS Tds (one stored cell); repair_trace_enabled / env::var_os / format! stubbed"],
      obligations=_obl,
      claim="legality guard of every bistellar move with 2 <= k < D: the move is refused iff its inserted simplex already lies in a cell the move does not remove "
            "(also when that cell shares vertices with the removed face); cells the move removes do not count",
      mutant=dict(file=FLIPS, old="        if removed_cells.contains(&cell_key) {\n            continue;\n        }\n\n        let Some(cell) = tds.get_cell(cell_key) else {",
                  new="        let Some(cell) = tds.get_cell(cell_key) else {", desc="cells removed by the move count as witnesses") if _nm == "removed" else
             dict(file=FLIPS, old="    if k_move >= 2\n        && k_move < D\n        && let Some(existing_cell) =", new="    if k_move > 2\n        && k_move < D\n        && let Some(existing_cell) =", desc="guard skipped for k = 2"))

# ======================================================================================
# delaunay_triangulation.rs : removal, Edit-API index coherence, repair gate, Level-4 plumbing
# ======================================================================================
_DT_IMPL = None
_ASSUME_RM = ("callee contracts assumed (stubs): vertex_key_from_uuid (any lookup result); apply_bistellar_flip_k1_inverse (Ok => any change, "
              "Err => ASSUMED unchanged - its internal rollback is storage code, not under contract); Triangulation::remove_vertex (Ok(n) => any change, "
              "Err => unchanged by its own snapshot restore - ASSUMED, its closure needs real cells); should_run_delaunay_repair_for (any bool; proved by dt.should_run); "
              "repair_delaunay_with_flips_k2_k3 (contract PROVED by repair.protocol: Ok => any change, Err => unchanged)")
K("dt.remove_vertex", ["C03", "C06", "C19"], DT, "dt.rs", "remove_vertex_contract", "K-callee",
  [fn(DT, "remove_vertex", anchor=r"pub fn remove_vertex\(\s*&mut self,\s*vertex: &Vertex<K::Scalar, U, D>,\s*\) -> Result<usize, TriangulationValidationError>")],
  tier="quick", timeout=1500, assumed=[_ASSUME_RM],
  obligations=["unknown-noop", "ok-count", "repair-iff-policy", "fastpath-first", "err-unchanged", "fan-fallback"],
  claim="DelaunayTriangulation::remove_vertex for EVERY outcome of its callees: unknown vertex => Ok(0) untouched; Ok(n) reports the path's count; "
        "repair runs iff policy says so; Err => triangulation exactly as before (snapshot restored)",
  mutant=dict(file=DT, old="            if let Err(e) = repair_delaunay_with_flips_k2_k3(tds, kernel, seed_ref, topology) {\n                self.tri.tds = tds_snapshot;",
              new="            if let Err(e) = repair_delaunay_with_flips_k2_k3(tds, kernel, seed_ref, topology) {", desc="snapshot restore after a failed post-removal repair deleted"))
K("dt.flip_k1_insert_index", ["C09"], DT, "dt.rs", "flip_k1_insert_index_contract", "K-callee",
  [dict(file="src/triangulation/flips.rs", name="DelaunayTriangulation::flip_k1_insert", anchor=r"\bfn\s+flip_k1_insert\b",
        within=r"impl<K, U, V, const D: usize> BistellarFlips<K, U, V, D> for DelaunayTriangulation<K, U, V, D>"),
   fn(DT, "triangulation_mut_for_edit")],
  timeout=600, assumed=["apply_bistellar_flip_k1 (stub): Ok => a vertex was added (any change), Err => any"],
  obligations=["delegates", "verdict", "index-dropped"],
  claim="Edit-API flip_k1_insert on a DelaunayTriangulation: whenever it adds a vertex the duplicate index is dropped, so the next insert rebuilds it from ALL vertices",
  mutant=dict(file="src/triangulation/flips.rs", old="        self.triangulation_mut_for_edit()\n            .flip_k1_insert(cell_key, vertex)", new="        self.tri.flip_k1_insert(cell_key, vertex)",
              desc="Edit-API insert bypasses the cache-dropping accessor again (F2)"))
K("dt.mutable_access", ["C09"], DT, "dt.rs", "mutable_access_drops_caches_contract", "K-full",
  [fn(DT, "as_triangulation_mut"), fn(DT, "triangulation_mut_for_edit")], timeout=600,
  obligations=["as-triangulation-mut", "edit-accessor"],
  claim="as_triangulation_mut / triangulation_mut_for_edit drop the duplicate index and the locate hint",
  mutant=dict(file=DT, old="    pub fn as_triangulation_mut(&mut self) -> &mut Triangulation<K, U, V, D> {\n        // Direct mutable access can invalidate performance caches.\n        self.insertion_state.last_inserted_cell = None;\n        self.spatial_index = None;",
              new="    pub fn as_triangulation_mut(&mut self) -> &mut Triangulation<K, U, V, D> {\n        // Direct mutable access can invalidate performance caches.\n        self.insertion_state.last_inserted_cell = None;",
              desc="as_triangulation_mut no longer drops the duplicate index"))
for d, tier in [(2, "quick"), (1, "thorough")]:
    K(f"dt.should_run.d{d}", ["C06", "C08"], DT, "dt.rs", f"should_run_repair_d{d}", "K-callee",
      [fn(DT, "should_run_delaunay_repair_for")], tier=tier, timeout=600,
      assumed=["Tds::number_of_cells (stub: any count)", "insertion_count <= 4096, EveryN n <= 64 (symbolic modulo kept small)"],
      bounded="insertion_count <= 4096 and n <= 64 for the EveryN arithmetic",
      obligations=["never-when", "due"] if d >= 2 else ["never-when"],
      claim="should_run_delaunay_repair_for: false for D < 2 / no cells / policy Never; otherwise exactly when the policy is due")
K("dt.everyn", ["C08", "C02"], DT, "dt.rs", "everyn_contract", "K-full",
  [fn(DT, "should_repair"), fn(DT, "should_check")], timeout=600,
  bounded="n <= 255, count <= 65535 (bit-precise modulo)", obligations=["repair-everyn", "check-everyn", "check-endonly"],
  claim="DelaunayRepairPolicy::EveryN / DelaunayCheckPolicy::EveryN fire exactly on multiples of n; EndOnly never")
K("dt.repair_entry", ["C08", "C03"], DT, "dt.rs", "repair_entry_contract", "K-callee",
  [fn(DT, "repair_delaunay_with_flips", anchor=r"pub fn repair_delaunay_with_flips\(&mut self\)")], timeout=900,
  assumed=["repair_delaunay_with_flips_k2_k3 (contract PROVED by repair.protocol)"],
  obligations=["single-run", "ok-from-engine", "err-unchanged"],
  claim="repair_delaunay_with_flips (public entry): engine wrapper runs at most once; Err => unchanged")
K("dt.level4_is_valid", ["C04"], DT, "dt.rs", "level4_is_valid_contract", "K-callee",
  [fn(DT, "is_valid", anchor=r"pub fn is_valid\(&self\) -> Result<\(\), DelaunayTriangulationValidationError>"), fn(DT, "is_delaunay_via_flips")],
  timeout=900, assumed=["verify_delaunay_via_flip_predicates (stub: any verdict); alloc::fmt::format stubbed (message text not modelled)"],
  obligations=["consults-verifier", "verdict"],
  claim="DelaunayTriangulation::is_valid is Err exactly when the flip-predicate verifier reports a violation")
K("dt.level4_validate", ["C04", "C05"], DT, "dt.rs", "level4_validate_contract", "K-callee",
  [fn(DT, "validate", anchor=r"pub fn validate\(&self\) -> Result<\(\), DelaunayTriangulationValidationError>")],
  timeout=900, assumed=["Triangulation::validate (contract proved by tri.validate), DelaunayTriangulation::is_valid (dt.level4_is_valid): any verdict"],
  obligations=["conjunction", "all-consulted"],
  claim="DelaunayTriangulation::validate == Triangulation::validate (Levels 1-3) && is_valid (Level 4)",
  mutant=dict(file=DT, old="        self.tri.validate()?;\n        self.is_valid()\n", new="        self.tri.validate()?;\n        Ok(())\n",
              desc="the Level-4 call dropped from validate()"))

K("dt.record_insertion", ["C01", "C19"], DT, "dt_stats.rs", "record_insertion_contract", "K-full",
  [fn(DT, "record_insertion"), fn(DT, "record_common"), fn(DT, "total_skipped")], timeout=1200,
  bounded="attempts <= 8 (call-site bound 1 + max perturbation attempts; histogram resize loop fully unwound); each counter <= isize::MAX/4 (they count distinct elements of one input slice)",
  obligations=["count-inserted", "count-duplicate", "count-degeneracy", "conservation", "histogram", "monotone"],
  claim="ConstructionStatistics::record_insertion: for every counter state and every result, exactly one of inserted / skipped_duplicate / skipped_degeneracy grows, by exactly 1, chosen by the result",
  mutant=dict(file=DT, old="        } else if stats.skipped() {\n            self.skipped_degeneracy = self.skipped_degeneracy.saturating_add(1);\n        } else {",
              new="        } else if stats.skipped() {\n            self.skipped_degeneracy = self.skipped_degeneracy.saturating_add(1);\n            self.inserted = self.inserted.saturating_add(1);\n        } else {",
              desc="`inserted` incremented for a skipped vertex"))

# ======================================================================================
# C14 / C05 / C19 : comparators and element-level validity (vertex.rs, point.rs, uuid.rs)
# ======================================================================================
VTX = "src/core/vertex.rs"
PT = "src/geometry/point.rs"
for d, tier in [(2, "quick"), (3, "thorough")]:
    K(f"order.point.d{d}", ["C14"], VTX, "vertex.rs", f"point_order_d{d}", "K-full",
      [dict(file=PT, name="Point::partial_cmp", anchor=r"fn partial_cmp\(&self, other: &Self\) -> Option<Ordering>", within=r"impl<T, const D: usize> PartialOrd for Point<T, D>"),
       dict(file=VTX, name="Vertex::partial_cmp", anchor=r"fn partial_cmp\(&self, other: &Self\) -> Option<Ordering>", within=r"impl<T, U, const D: usize> PartialOrd for Vertex<T, U, D>"),
       dict(file=VTX, name="Vertex::eq", anchor=r"fn eq\(&self, other: &Self\) -> bool", within=r"impl<T, U, const D: usize> PartialEq for Vertex<T, U, D>")],
      tier=tier, timeout=900,
      obligations=["total", "lexicographic", "antisymmetric", "transitive", "transitive-eq", "eq-consistent", "vertex-cmp-coords-only", "vertex-eq-coords-only"],
      assumed=["slice::sort_by is a comparator-respecting permutation (std contract, not verified)"],
      claim=f"Point<f64,{d}>::partial_cmp for ALL f64 triples: total, lexicographic under ordered-float semantics, antisymmetric, transitive; Vertex comparison/equality depend on coordinates only "
            "=> for distinct coordinates the sort key of the ordering strategies does not depend on the caller's order",
      mutant=dict(file=VTX, old="        self.point.partial_cmp(&other.point)\n", new="        other.point.partial_cmp(&self.point)\n",
                  desc="vertex ordering reversed with respect to the point ordering") if d == 2 else None)
for d, tier in [(2, "quick"), (3, "thorough"), (5, "thorough")]:
    K(f"valid.vertex.d{d}", ["C05", "C19", "C02"], VTX, "vertex.rs", f"vertex_valid_d{d}", "K-full",
      [fn(VTX, "is_valid", anchor=r"pub fn is_valid\(self\) -> Result<\(\), VertexValidationError>"),
       dict(file=PT, name="Point::validate", anchor=r"fn validate\(&self\) -> Result<\(\), CoordinateValidationError>"),
       dict(file="src/core/util/uuid.rs", name="validate_uuid", anchor=r"pub const fn validate_uuid")],
      tier=tier, timeout=900, assumed=["alloc::fmt::format stubbed (error message text not modelled)"],
      obligations=["point-finite", "uuid-v4", "vertex-valid"],
      claim=f"Vertex<f64,(),{d}>::is_valid / Point::validate / validate_uuid for every [f64; {d}] and every 128-bit UUID: Ok <=> all coordinates finite and UUID non-nil v4",
      mutant=dict(file=PT, old="            if !coord.is_finite_generic() {\n                return Err(CoordinateValidationError::InvalidCoordinate {",
                  new="            if coord.is_nan() {\n                return Err(CoordinateValidationError::InvalidCoordinate {",
                  desc="infinite coordinates pass Point::validate") if d == 2 else None)

# ======================================================================================
# C15 : Euler characteristic arithmetic (K-full per f-vector length)
# ======================================================================================
for n, tier in [(3, "quick"), (4, "quick"), (1, "thorough"), (2, "thorough"), (5, "thorough"), (6, "thorough")]:
    K(f"euler.len{n}", ["C15"], EULER, "euler.rs", f"euler_len{n}", "K-full", [fn(EULER, "euler_characteristic")], tier=tier, timeout=600,
      obligations=["alternating-sum"] + (["v-e-f"] if n == 3 else []),
      bounded="entries < 2^40 (so the isize sum cannot overflow); one harness per f-vector length 1..=6 (all D <= 5)",
      claim=f"euler_characteristic == sum (-1)^k f_k for every f-vector of length {n}",
      mutant=dict(file=EULER, old="let sign = if k % 2 == 0 { 1 } else { -1 };", new="let sign = if k % 2 == 0 || k == 3 { 1 } else { -1 };",
                  desc="the sign of f_3 flipped") if n == 4 else None)

# ======================================================================================
# C17 / C09 : dedup soundness under an arbitrary duplicate relation (K-bounded in N)
# ======================================================================================
DEDUP = "src/core/util/deduplication.rs"
_DEDUP_OBL = [f"{t}-{k}" for t in ("exact", "epsilon") for k in ("no-growth", "no-invention", "intact", "no-duplication", "greedy", "order")] + ["filter-exact", "filter-nothing-else"]
for n, tier, to in [(3, "quick", 900), (2, "thorough", 600), (4, "thorough", 2400)]:
    K(f"dedup.n{n}", ["C17", "C09"], DEDUP, "dedup.rs", f"dedup_n{n}", "K-bounded",
      [fn(DEDUP, "dedup_vertices_exact"), fn(DEDUP, "dedup_vertices_epsilon"), fn(DEDUP, "filter_vertices_excluding")],
      tier=tier, timeout=to, obligations=_DEDUP_OBL, no_playback=True,
      bounded=f"input length N = {n} (concrete length, arbitrary duplicate relation); 'for all N' is NOT claimed",
      assumed=["coords_equal_exact / coords_within_epsilon replaced by an ARBITRARY symmetric relation table (stub); the relation's own float definition is not verified here"],
      claim=f"dedup_vertices_exact / dedup_vertices_epsilon / filter_vertices_excluding on {n} vertices, for every duplicate relation: output == greedy filter "
            "(subsequence of the input, survivors pairwise unrelated, every dropped vertex related to an earlier survivor; UUID/data/coords intact)",
      mutant=dict(file=DEDUP, old="            if coords_within_epsilon(v.point().coords(), u.point().coords(), epsilon) {\n                continue 'outer; // Skip near-duplicate\n            }\n        }\n\n        unique.push(v);",
                  new="            if coords_within_epsilon(v.point().coords(), u.point().coords(), epsilon) {\n                continue 'outer; // Skip near-duplicate\n            }\n            break;\n        }\n\n        unique.push(v);",
                  desc="epsilon dedup only compares against the first survivor") if n == 3 else None)

# ======================================================================================
# C14 / C17 : ordering strategies and private dedup fallbacks (delaunay_triangulation.rs)
# ======================================================================================
K("order.hilbert", ["C14", "C17"], DT, "dt_order.rs", "hilbert_order_independent_contract", "K-callee",
  [fn(DT, "order_vertices_hilbert"), fn(DT, "hilbert_bits_per_coord")], timeout=1200, no_playback=True,
  bounded="N = 2 vertices, D = 2 (every pair of finite coordinate tuples with distinct first coordinate)",
  assumed=["hilbert_quantize (stub): the grid cell is an arbitrary function of the coordinates alone; hilbert_indices_prequantized (stub): index is a function of the cell (injectivity proved by hilbert.*)",
           "slice::sort_by is a comparator-respecting permutation (executed by CBMC at N = 2)"],
  obligations=["hilbert-length", "hilbert-permutation", "hilbert-order-free"],
  claim="order_vertices_hilbert on two vertices with distinct coordinates: a permutation, and the same output sequence whichever order the caller listed them (also when both fall into one grid cell)",
  mutant=dict(file=DT, old="            .then_with(|| a_vertex.partial_cmp(b_vertex).unwrap_or(Ordering::Equal))\n            .then_with(|| a_in.cmp(b_in))",
              new="            .then_with(|| a_in.cmp(b_in))", desc="Hilbert tie-break by coordinates removed (falls through to input position)"))
K("order.lexicographic", ["C14", "C17"], DT, "dt_order.rs", "lexicographic_order_independent_contract", "K-bounded",
  [fn(DT, "order_vertices_lexicographic"), fn(DT, "vertex_coordinate_hash")], timeout=1200, no_playback=True,
  bounded="N = 2 vertices, D = 2, all f64 values incl. NaN / infinities / signed zeros",
  obligations=["lex-permutation", "lex-order-free"],
  claim="order_vertices_lexicographic on two vertices with distinct coordinates: a permutation, independent of the caller's order")
K("order.seed", ["C14"], DT, "dt_order.rs", "shuffle_seed_order_free_contract", "K-bounded",
  [fn(DT, "construction_shuffle_seed"), dict(file="src/core/util/hashing.rs", name="stable_hash_u64_slice", anchor=r"pub fn stable_hash_u64_slice")],
  tier="thorough", timeout=1800, no_playback=True, bounded="N <= 3 vertices", obligations=["seed-order-free", "seed-order-free-2"],
  claim="construction_shuffle_seed is identical for every order of the same 2 or 3 vertices")
for d, unw, tier in [(2, 34, "thorough"), (3, 23, "quick"), (4, 18, "thorough"), (5, 14, "thorough")]:
    K(f"morton.d{d}", ["C17", "C14"], DT, "dt_order.rs", f"morton_d{d}", "K-full", [fn(DT, "morton_code"), fn(DT, "morton_bits_per_coord")],
      tier=tier, timeout=1200, obligations=["morton-bits", "morton-injective"],
      claim=f"morton_code::<{d}> is injective on all {d}-tuples of (64/{d})-bit coordinates; bits per coordinate = 64/D",
      mutant=dict(file=DT, old="            let b = (q >> bit) & 1;\n            code = (code << 1) | b;", new="            let b = (q >> (bit | 1)) & 1;\n            code = (code << 1) | b;",
                  desc="Morton interleave reads every odd bit twice (even bits lost)") if d == 3 else None)
K("dedup.quantized_fallback", ["C17"], DT, "dt_order.rs", "quantized_fallback_contract", "K-callee",
  [fn(DT, "dedup_vertices_epsilon_quantized")], timeout=1200, no_playback=True,
  bounded="3 input vertices; the first vertex is the one that cannot be bucketed (bucket-map insertions do not fit in CBMC)",
  assumed=["quantize_coords (stub): returns None; dedup_vertices_epsilon_n2 (stub): identity, records its input (proved greedy by dedup.n* for the public twins)"],
  obligations=["fallback-complete", "fallback-result"],
  claim="dedup_vertices_epsilon_quantized: when coordinates cannot be bucketed, the O(n^2) path receives the complete input in order (no vertex lost)")
K("dedup.quantized_fallback.n2", ["C17"], DT, "dt_order.rs", "quantized_fallback_n2_contract", "K-callee",
  [fn(DT, "dedup_vertices_epsilon_quantized")], timeout=1200, no_playback=True,
  bounded="2 input vertices; the first vertex is the one that cannot be bucketed (bucket-map insertions do not fit in CBMC)",
  assumed=["quantize_coords (stub): returns None; dedup_vertices_epsilon_n2 (stub): identity, records its input (proved greedy by dedup.n* for the public twins)"],
  obligations=["fallback-complete", "fallback-result"],
  claim="dedup_vertices_epsilon_quantized: when coordinates cannot be bucketed, the O(n^2) path receives the complete input in order (no vertex lost)")
K("dedup.quantized_fallback.n1", ["C17"], DT, "dt_order.rs", "quantized_fallback_n1_contract", "K-callee",
  [fn(DT, "dedup_vertices_epsilon_quantized")], timeout=1200, no_playback=True,
  bounded="1 input vertices; the first vertex is the one that cannot be bucketed (bucket-map insertions do not fit in CBMC)",
  assumed=["quantize_coords (stub): returns None; dedup_vertices_epsilon_n2 (stub): identity, records its input (proved greedy by dedup.n* for the public twins)"],
  obligations=["fallback-complete", "fallback-result"],
  claim="dedup_vertices_epsilon_quantized: when coordinates cannot be bucketed, the O(n^2) path receives the complete input in order (no vertex lost)")

for _nm, _fnn, _har, _old in (("exact", "dedup_vertices_exact_hash_grid", "exact_hash_grid_fallback_contract", "    if !hash_grid_usable_for_vertices(grid, &vertices) {\n        return dedup_vertices_exact_sorted(vertices);"),
                              ("epsilon", "dedup_vertices_epsilon_hash_grid", "epsilon_hash_grid_fallback_contract", "    if !hash_grid_usable_for_vertices(grid, &vertices) {\n        return dedup_vertices_epsilon_quantized(vertices, epsilon);")):
    K("dedup.grid_fallback." + _nm, ["C17", "C09"], DT, "dt_dedup_grid.rs", _har, "K-callee",
      [fn(DT, _fnn), fn(DT, "hash_grid_usable_for_vertices")], timeout=1200, no_playback=True,
      bounded="2 input vertices (every pair of finite first coordinates; cell size 1.0 or an unusable grid)",
      assumed=["HashGridIndex::insert_vertex / clear (stubs): recorded only (keyability and the candidate query are the grid's real code, on a grid whose cells stay empty); "
               "dedup_vertices_exact_sorted / dedup_vertices_epsilon_quantized (stubs): identity, recorded; record_duplicate_detection_metrics stubbed"],
      obligations=["fallback-when-unkeyable", "grid-untouched", "fallback-result", "grid-when-keyable"],
      claim=_fnn + ": if the grid cannot key EVERY input vertex, the grid-free fallback decides and no vertex is run through the grid "
            "(an unkeyable vertex switches the grid off, after which every later vertex would be kept unchecked)",
      mutant=dict(file=DT, old=_old, new=_old.replace("!hash_grid_usable_for_vertices(grid, &vertices)", "!grid.is_usable()"), desc="usability pre-scan of the input dropped (only the grid's own flag is asked)"))

# ======================================================================================
# C11 : convex hull staleness protocol (K-callee, one query per harness)
# ======================================================================================
HULL = "src/geometry/algorithms/convex_hull.rs"
_HULL_ASSUME = ["arc-swap replaced by the sequential stub (stubs/arc-swap)", "Tds::generation (stub): returns the counter value chosen by the harness (contract proved by tds.generation)",
                "Tds::build_facet_to_cells_map (stub): only records that it was reached"]
K("hull.validity", ["C11"], HULL, "hull.rs", "hull_validity_contract", "K-callee",
  [fn(HULL, "is_valid_for_triangulation"), fn(HULL, "invalidate_cache")], timeout=900, assumed=_HULL_ASSUME,
  obligations=["valid-iff-same-generation", "invalidate-keeps-creation", "empty-valid", "unset-nonempty-invalid"],
  claim="ConvexHull::is_valid_for_triangulation <=> creation generation == triangulation generation, for all pairs of u64 generations; invalidate_cache leaves the creation generation alone",
  mutant=dict(file=HULL, old=".map_or(self.is_empty(), |&g| g == tri.tds.generation())", new=".map_or(self.is_empty(), |&g| g <= tri.tds.generation())",
              desc="hull considered valid for any newer triangulation generation"))
for nm, fname, har, pair in [("validate.c56", "validate", "hull_stale_validate_c56", (5, 6)), ("validate.c65", "validate", "hull_stale_validate_c65", (6, 5)),
                             ("is_point_outside.c56", "is_point_outside", "hull_stale_is_point_outside_c56", (5, 6)), ("is_point_outside.c65", "is_point_outside", "hull_stale_is_point_outside_c65", (6, 5)),
                             ("facet_visible.c56", "is_facet_visible_from_point", "hull_stale_facet_visible_c56", (5, 6)), ("find_nearest.c65", "find_nearest_visible_facet", "hull_stale_find_nearest_c65", (6, 5))]:
    K(f"hull.stale.{nm}", ["C11", "C19"], HULL, "hull.rs", har, "K-callee", [fn(HULL, fname, anchor=r"pub fn " + fname + r"\(")],
      tier="quick" if nm.startswith("validate") else "thorough", timeout=5400, assumed=_HULL_ASSUME,
      obligations=["stale-" + nm.split(".")[0].replace("_", "-"), "no-cache-work"],
      bounded=f"one concrete pair of generations (hull created at {pair[0]}, triangulation at {pair[1]}), one facet handle, any query point; all pairs of generations: hull.validity (the predicate) and the symbolic twins (manual, DESIGN 8.4)",
      claim=f"ConvexHull::{fname} on a stale hull (generation {pair[0]} vs {pair[1]}) returns StaleHull before any cache build - no panic, no answer")
for nm, fname, tier in [("validate", "validate", "quick"), ("is_point_outside", "is_point_outside", "thorough"), ("find_visible", "find_visible_facets", "thorough"),
                        ("find_nearest", "find_nearest_visible_facet", "thorough"), ("facet_visible", "is_facet_visible_from_point", "thorough")]:
    K(f"hull.stale.{nm}", ["C11", "C19"], HULL, "hull.rs", f"hull_stale_{nm}", "K-callee",
      [fn(HULL, fname, anchor=r"pub fn " + fname + r"\(")], tier=tier, timeout=1800 if tier == "quick" else 5400, assumed=_HULL_ASSUME,
      obligations=["stale-" + nm.replace("_", "-"), "no-cache-work"],
      bounded="hull with 1..2 facet handles; all pairs of distinct u64 generations; any query point",
      claim=f"ConvexHull::{fname} on a hull whose triangulation changed (generation differs) returns StaleHull before any cache build or facet access",
      mutant=dict(file=HULL, old="        let visible_facets = self.find_visible_facets(point, tri)?;\n        Ok(!visible_facets.is_empty())",
                  new="        let visible_facets = self.find_visible_facets(point, tri).unwrap_or_default();\n        Ok(!visible_facets.is_empty())",
                  desc="is_point_outside swallows the StaleHull error") if nm == "is_point_outside" else None)

K("tri.validation_report", ["C05"], TRI, "triangulation.rs", "validation_report_contract", "K-callee",
  [fn(TRI, "validation_report", anchor=r"pub\(crate\) fn validation_report\(&self\) -> Result<\(\), TriangulationValidationReport>")], tier="thorough", timeout=5400,
  obligations=["report-iff-validate", "all-consulted", "nonempty-err", "mapping-stop"], assumed=[_ASSUME_VALIDATORS],
  bounded="element loops over vertices / cells run on the empty Tds (0 elements); the call structure around them is unbounded",
  claim="Triangulation::validation_report is empty <=> structural report && Level 3 && completion-time check all pass (F7 fixed: the same conjunction validate() decides)",
  mutant=dict(file=TRI, old="        if violations.is_empty()\n            && let Err(e) = self.validate_at_completion()\n        {", new="        if false\n            && let Err(e) = self.validate_at_completion()\n        {",
              desc="completion-time check no longer reported (F7 regression)"))

# ======================================================================================
# C04 : the k=2 violation formula (V-slices of delaunay_violation_k2_for_facet)
# ======================================================================================
_VIOL = r"\bfn\s+delaunay_violation_k2_for_facet\b"
V("violation_formula", ["C04"], [
    dict(kind="type", file=FLIPS, anchor=r"enum RepairQueueOrder\s*\{", name="RepairQueueOrder", derive="#[derive(Clone, Copy)]"),
    dict(kind="type", file=FLIPS, anchor=r"struct RepairAttemptConfig\s*\{", name="RepairAttemptConfig", derive="#[derive(Clone, Copy)]"),
    dict(kind="slice", file=FLIPS, anchor=_VIOL, name="slice_both_positive_artifact", generics="<const D: usize>",
         stmt=r"let both_positive_artifact =[^;]*;", params="config: &RepairAttemptConfig, in_a: i32, in_b: i32", ret="bool", result="both_positive_artifact",
         contract=dict(ensures=["r == (D >= 4 && config.use_robust_on_ambiguous && in_a > 0 && in_b > 0)"])),
    dict(kind="slice", file=FLIPS, anchor=_VIOL, name="slice_violates",
         stmt=r"let violates =[^;]*;", params="both_positive_artifact: bool, in_a: i32, in_b: i32", ret="bool", result="violates",
         contract=dict(ensures=["r == (!both_positive_artifact && (in_a > 0 || in_b > 0))"])),
], lemmas="""
// composition of the two statements, as the function executes them
fn violation_verdict<const D: usize>(config: &RepairAttemptConfig, in_a: i32, in_b: i32) -> (r: bool)
    ensures
        r == ((in_a > 0 || in_b > 0) && !(D >= 4 && config.use_robust_on_ambiguous && in_a > 0 && in_b > 0)),
        // D <= 3: a facet is accepted only if neither apex tested strictly inside
        D <= 3 ==> (!r ==> (in_a <= 0 && in_b <= 0)),
        // the D >= 4 suppression is confined to "both strictly positive under robust predicates"
        (!r && (in_a > 0 || in_b > 0)) ==> (D >= 4 && config.use_robust_on_ambiguous && in_a > 0 && in_b > 0),
        // exactly one apex strictly inside is always a violation, in every dimension
        ((in_a > 0) != (in_b > 0)) ==> r,
{
    let a = slice_both_positive_artifact::<D>(config, in_a, in_b);
    slice_violates(a, in_a, in_b)
}
""",
  claim="the two statements that decide a k=2 Delaunay violation: violates == (an apex strictly inside) minus the D>=4 both-positive artefact; D <= 3: not violates => both in-sphere signs <= 0. "
        "A V-slice pins the FORMULA, not that the function returns it (everything else in the function is dropped)",
  mutant=dict(file=FLIPS, old="let both_positive_artifact = D >= 4 && config.use_robust_on_ambiguous && in_a > 0 && in_b > 0;",
              new="let both_positive_artifact = D >= 3 && config.use_robust_on_ambiguous && in_a > 0 && in_b > 0;", desc="D >= 4 artefact suppression widened to D >= 3"))

for _k, _tier in [(1, "thorough"), (2, "thorough"), (0, "thorough")]:
    K(f"tds.remove_cells_bump.k{_k}", ["C11"], TDS, "tds.rs", f"remove_cells_bumps_generation_k{_k}", "K-callee",
      [fn(TDS, "remove_cells_by_keys")], tier=_tier, timeout=1500 if _tier == "quick" else 5400,
      assumed=["collect_removal_frontier_and_clear_neighbor_back_references / remove_cells_and_update_uuid_mappings / repair_incident_cells_after_cell_removal (stubs): any removed count <= number of keys, storage effects not modelled"],
      bounded=f"{_k} cell key(s) (concrete key values; the key set is a real hash set)",
      obligations=(["count", "bump-on-removal", "incidence-repaired", "no-bump-without-change"] if _k > 0 else ["count", "no-bump-without-change"]),
      claim="Tds::remove_cells_by_keys: whenever at least one cell was removed the generation is bumped exactly once (so hulls see the change); nothing removed => no bump",
      mutant=dict(file=TDS, old="        // Bump generation once for all removals (neighbors + incidence + cell storage).\n        self.bump_generation();\n", new="",
                  desc="generation bump after bulk cell removal deleted") if _k == 1 else None)
K("tds.remove_missing_cell", ["C11"], TDS, "tds.rs", "remove_missing_cell_contract", "K-full",
  [fn(TDS, "remove_cell_by_key")], tier="thorough", timeout=900, obligations=["missing-noop"],
  bounded="empty Tds (every key is missing)",
  claim="Tds::remove_cell_by_key on a key that is not present: None, generation unchanged")
for _nm, _tier in [("n1_nohint", "quick"), ("n2_nohint", "thorough"), ("n2_hint", "thorough"), ("n0_absent", "thorough")]:
    K(f"tri.adjacent_cells.{_nm}", ["C15"], TRI, "triangulation.rs", f"adjacent_cells_{_nm}", "K-callee",
      [fn(TRI, "adjacent_cells", anchor=r"pub fn adjacent_cells\(&self, v: VertexKey\)")], tier=_tier, timeout=900 if _tier == "quick" else 5400,
      assumed=["Tds::find_cells_containing_vertex_by_key (stub): the stored star; Tds::get_vertex_by_key (stub): the vertex record (absent / without / with incident-cell hint)"],
      bounded="stars of 0..2 cells (concrete keys, one instance per star size and vertex-record state)", obligations=["star-is-stored-star"],
      claim="Triangulation::adjacent_cells(v) yields exactly the stored star of v for every state of the vertex's incident-cell hint")

TOPOV = "src/topology/characteristics/validation.rs"
for d, wb, tier in [(3, "ball", "thorough"), (3, "closed", "thorough"), (2, "ball", "thorough"), (2, "closed", "thorough")]:
    K(f"euler.classify.d{d}.{wb}", ["C15"], TOPOV, "topo_validation.rs", f"euler_classify_d{d}_{wb}", "K-callee",
      [fn(TOPOV, "validate_triangulation_euler_with_facet_to_cells_map")], tier=tier, timeout=1500,
      assumed=["count_simplices_with_facet_to_cells_map (stub: any f-vector), euler_characteristic (stub: any chi; proved by euler.len*), Tds::number_of_cells (stub: any count); format! stubbed"],
      bounded="facet map with a single facet: " + ("a boundary facet" if wb == "ball" else "an interior facet") + " (concrete key)",
      obligations=["chi-reported", "empty", "single"] + (["ball"] if wb == "ball" else ["sphere"]),
      claim="classification + expected chi of the Level-3 Euler check: >= 1 cell with a boundary facet => Ball/SingleSimplex held to chi = 1; closed => 1 + (-1)^D; computed chi reported unchanged",
      mutant=dict(file=TOPOV, old="    } else if facet_to_cells.values().any(|cells| cells.len() == 1) {", new="    } else if facet_to_cells.values().any(|cells| cells.len() == 2) {",
                  desc="ball classification looks for an interior facet instead of a boundary facet") if (d, wb) == (3, "ball") else None)

BUILDER = "src/core/builder.rs"
K("builder.canonicalize_vertices", ["C16"], BUILDER, "builder.rs", "canonicalize_vertices_contract", "K-callee",
  [fn(BUILDER, "canonicalize_vertices")], tier="thorough", timeout=5400, no_playback=True, mem_gb=22,
  assumed=["GlobalTopologyModel::canonicalize_point_in_place replaced by an arbitrary model (rewrites or refuses; contract of the real ToroidalModel proved by canon_model.*); format! stubbed"],
  bounded="2 input vertices",
  obligations=["err-propagates", "same-length", "uuid-kept", "data-kept", "coords-from-model", "untouched-axes", "err-only-from-model", "first-error-stops"],
  claim="DelaunayTriangulationBuilder::canonicalize_vertices: same length and order, UUID and data kept, only coordinates replaced by the model's, first model error => Err",
  mutant=dict(file=BUILDER, old="            let new_vertex = Vertex::new_with_uuid(new_point, v.uuid(), v.data);", new="            let new_vertex = Vertex::new_with_uuid(new_point, v.uuid(), None);",
              desc="user data dropped while canonicalising"))

# ======================================================================================
# C19 is the union of the no-panic obligations; in the quick tier only the cheap units run for it
# ======================================================================================
_C19_QUICK = {"hilbert.d2b4", "wrap_coord.d2", "canon_model.d2_f64", "valid.vertex.d2", "maxflips", "flipkind",
              "tri.validate_after_insertion", "grid.key.d2", "grid.unkeyable_disables", "handles.canonical", "euler.len4"}
for _u in UNITS:
    if "C19" in _u["props"] and _u.get("tier", "quick") == "quick" and _u["id"] not in _C19_QUICK:
        _u.setdefault("tier_for", {})["C19"] = "thorough"

K("flip.k1_insert_rollback", ["C03"], FLIPS, "flips.rs", "flip_k1_insert_rollback_contract", "K-callee",
  [fn(FLIPS, "apply_bistellar_flip_k1")], timeout=1200,
  assumed=["Tds::insert_vertex_with_mapping (stub): Ok => exactly the new isolated vertex added, Err => unchanged; build_k1_forward_context_from_cell (stub): any result; "
           "apply_bistellar_flip (stub): Ok => any change, Err => ASSUMED unchanged (its late errors after insert_cell_with_mapping are storage code, not under contract); "
           "Tds::remove_vertex (stub): removing the fresh isolated vertex restores the entry state"],
  obligations=["ok-path", "err-no-vertex-left"],
  claim="apply_bistellar_flip_k1 (Edit-API flip_k1_insert): for every failure point (duplicate UUID, missing/stale cell, failed flip) Err leaves no vertex behind (F8 fixed)",
  mutant=dict(file=FLIPS, old="    let result = match build_k1_forward_context_from_cell(tds, cell_key, vertex_key) {\n        Ok(context) => apply_bistellar_flip::<K, U, V, D, 1>(tds, kernel, &context),\n        Err(e) => Err(e),\n    };",
              new="    let context = build_k1_forward_context_from_cell(tds, cell_key, vertex_key)?;\n    let result = apply_bistellar_flip::<K, U, V, D, 1>(tds, kernel, &context);",
              desc="context construction error returns early again, leaving the vertex (F8)"))

# ======================================================================================
# C07 / C05 : canonical handles and facet keys (K-full, all 64-bit raw keys)
# ======================================================================================
EDGE = "src/core/edge.rs"
FACET = "src/core/facet.rs"
K("handles.canonical", ["C07", "C15"], FLIPS, "handles.rs", "handles_canonical_contract", "K-full",
  [fn(FLIPS, "new", within=r"impl TriangleHandle\s*\{"), fn(FLIPS, "new", within=r"impl RidgeHandle\s*\{"),
   dict(file=EDGE, name="EdgeKey::new", anchor=r"pub fn new\(a: VertexKey, b: VertexKey\) -> Self")],
  timeout=900, obligations=["triangle-sorted", "triangle-permutation-invariant", "triangle-same-vertices", "edge-symmetric", "edge-canonical", "ridge-canonical", "ridge-same-slots"],
  claim="TriangleHandle::new / RidgeHandle::new / EdgeKey::new are canonical: same handle for every argument order, holding exactly the given vertices / slots, for all key values",
  mutant=dict(file=FLIPS, old="        if omit_a <= omit_b {\n            Self {\n                cell_key,\n                omit_a,\n                omit_b,\n            }\n        } else {\n            Self {\n                cell_key,\n                omit_a: omit_b,\n                omit_b: omit_a,\n            }\n        }",
              new="        Self {\n            cell_key,\n            omit_a,\n            omit_b,\n        }", desc="RidgeHandle no longer sorts its two omitted slots"))
K("facet_key.order_free", ["C05", "C15"], FLIPS, "handles.rs", "facet_key_permutation_contract", "K-full",
  [dict(file=FACET, name="facet_key_from_vertices", anchor=r"pub fn facet_key_from_vertices"),
   dict(file="src/core/util/hashing.rs", name="stable_hash_u64_slice", anchor=r"pub fn stable_hash_u64_slice")],
  tier="thorough", timeout=1800, obligations=["facet-key-order-free", "facet-key-order-free-2", "facet-key-empty"],
  bounded="facets of 2 and 3 vertices (D <= 3)",
  assumed=["injectivity of the 64-bit facet key is NOT claimed (it is false in general: distinct vertex sets can collide); validators that key facets by hash rely on it"],
  claim="facet_key_from_vertices depends on the vertex set only (every listing order gives the same key), for all key values")

# ======================================================================================
# C09 / C19 : duplicate-detection grid never silently mis-files a point
# ======================================================================================
GRID = "src/core/collections/spatial_hash_grid.rs"
for d, tier in [(2, "quick"), (3, "thorough")]:
    K(f"grid.key.d{d}", ["C09", "C19"], GRID, "grid.rs", f"grid_key_d{d}", "K-full",
      [fn(GRID, "key_for_coords"), fn(GRID, "new", anchor=r"pub\(in crate::core\) fn new\(cell_size: T\) -> Self"), fn(GRID, "can_key_coords")],
      tier=tier, timeout=1200, obligations=["usable-iff", "key-needs-usable", "key-needs-finite", "unusable-no-key"],
      claim=f"HashGridIndex<f64,{d}>: usable <=> D <= 5 and finite cell size > 0; keys only for finite coordinates on a usable index (all f64 values)")
K("grid.unkeyable_disables", ["C09"], GRID, "grid.rs", "grid_insert_unkeyable_disables_contract", "K-full",
  [fn(GRID, "insert_vertex"), fn(GRID, "for_each_candidate_vertex_key")], timeout=1200,
  obligations=["nonfinite-no-key", "unkeyable-disables", "unusable-reports-unused"], bounded="unkeyable coordinates = non-finite first coordinate",
  claim="inserting coordinates that have no grid key disables the index, and a disabled index reports 'not used' so callers fall back to the full scan (a point is never silently missing from a trusted index)",
  mutant=dict(file=GRID, old="        let Some(key) = self.key_for_coords(coords) else {\n            self.disable();\n            return;\n        };",
              new="        let Some(key) = self.key_for_coords(coords) else {\n            return;\n        };", desc="index stays 'usable' although a vertex could not be filed"))

# ======================================================================================
# C03 / C02 : the rollback-snapshot decision of insert / insert_with_statistics (K-slices)
# ======================================================================================
_SNAP_STMTS = [r"let next_insertion_count =.*?;", r"let could_have_cells_after_insertion =.*?;", r"let snapshot_needed =.*?;"]
_SL_INS = dict(file=DT, fn_anchor=r"pub fn insert\(&mut self, vertex: Vertex<K::Scalar, U, D>\) -> Result<VertexKey, InsertionError>",
               stmts=_SNAP_STMTS, name="verif_slice_insert_snapshot_needed", ret="bool", result="snapshot_needed")
_SL_INSS = dict(file=DT, fn_anchor=r"pub fn insert_with_statistics\(", stmts=_SNAP_STMTS,
                name="verif_slice_insert_stats_snapshot_needed", ret="bool", result="snapshot_needed")
for nm, sl, har in [("insert", _SL_INS, "insert_snapshot_decision"), ("insert_with_statistics", _SL_INSS, "insert_stats_snapshot_decision")]:
    K(f"dt.snapshot_decision.{nm}", ["C03", "C02"], DT, "dt_slices.rs", har, "K-slice",
      [dict(file=DT, name=f"DelaunayTriangulation::{nm} (K-slice: 3 statements)", anchor=sl["fn_anchor"])], slices=[_SL_INS, _SL_INSS], timeout=900,
      bounded="insertion count <= 1024, EveryN n <= 16 (bit-precise modulo); K-slice: the three `let` statements that decide the snapshot, everything else in the function dropped",
      assumed=["Tds::number_of_cells / number_of_vertices (stubs): any counts", "that the snapshot, when taken, is restored on every Err of the closure is NOT decided (InsertionError does not fit CBMC)"],
      obligations=["snapshot-when-poststep", "no-snapshot-in-bootstrap"],
      claim=f"DelaunayTriangulation::{nm}: the rollback snapshot is taken whenever flip repair or the scheduled Delaunay check can run for THIS insertion (decided on count + 1), for every policy pair and count",
      mutant=dict(file=DT, old="                    .should_check(next_insertion_count));\n        let snapshot = snapshot_needed.then(|| {\n            (\n                self.tri.tds.clone(),\n                self.insertion_state,\n                self.spatial_index.clone(),\n            )\n        });\n\n        let insertion_result = (|| {\n            let hint = self.insertion_state.last_inserted_cell;\n            let (outcome, _stats) = {",
                  new="                    .should_check(self.insertion_state.delaunay_repair_insertion_count));\n        let snapshot = snapshot_needed.then(|| {\n            (\n                self.tri.tds.clone(),\n                self.insertion_state,\n                self.spatial_index.clone(),\n            )\n        });\n\n        let insertion_result = (|| {\n            let hint = self.insertion_state.last_inserted_cell;\n            let (outcome, _stats) = {",
                  desc="snapshot decision evaluated on the stale (pre-increment) insertion count") if nm == "insert" else None)

_SL_IDX = dict(file=TRI, fn_anchor=r"fn insert_transactional\(", name="verif_slice_index_update",
               params="&self, mut index: Option<&mut HashGridIndex<K::Scalar, D>>, vertex_key: VertexKey, original_coords: [K::Scalar; D]", ret="()",
               stmts=[dict(block=r"if let Some\(index\) = index\.as_deref_mut\(\)")], result="let _ = &original_coords;")
_SL_ORI = dict(file=TRI, fn_anchor=r"pub\(in crate::core\) fn validate_geometric_cell_orientation\(", name="verif_slice_orientation_decision",
               params="&self, orientation: i32, cell_key: CellKey, cell: &Cell<K::Scalar, U, V, D>", ret="Result<(), TriangulationValidationError>",
               stmts=[dict(rest_of_block_after=r"let orientation = self\.evaluate_cell_orientation_for_context\(", wrap_loop=True)], result="Ok(())")
K("tri.orientation_decision", ["C05"], TRI, "tri_slices.rs", "orientation_decision_contract", "K-slice",
  [dict(file=TRI, name="Triangulation::validate_geometric_cell_orientation (K-slice: loop body)", anchor=_SL_ORI["fn_anchor"])],
  slices=[_SL_ORI, _SL_IDX], extra_attach=[("src/core/cell.rs", "cell_helper.rs")], timeout=900,
  assumed=["K-slice: the loop body after `let orientation = ..?;` (run once, so `continue` ends it), everything else (cell iteration, the orientation predicate itself) dropped; format! stubbed"],
  obligations=["positive-only"],
  claim="per-cell decision of validate_geometric_cell_orientation: Ok <=> orientation > 0 (flat and inverted cells rejected), for every i32 orientation value",
  mutant=dict(file=TRI, old="            if orientation == 0 {\n                return Err(TdsValidationError::InconsistentDataStructure {\n                    message: format!(\n                        \"Cell {:?} (key {cell_key:?}) has degenerate geometric orientation\",",
              new="            if orientation == i32::MIN {\n                return Err(TdsValidationError::InconsistentDataStructure {\n                    message: format!(\n                        \"Cell {:?} (key {cell_key:?}) has degenerate geometric orientation\",",
              desc="flat cells (orientation == 0) no longer rejected"))

_PER_FN = r"fn build_periodic<K, V, M>\("
_SL_PERT = dict(file=BUILDER, fn_anchor=_PER_FN, name="verif_slice_perturb_units", params="canon_idx: usize, axis: usize", ret="i64",
                stmts=[r"let perturb_units = \|canon_idx: usize, axis: usize\| -> i64 \{.*?\n        \};"], result="perturb_units(canon_idx, axis)")
_SL_SNAP_F = dict(file=BUILDER, fn_anchor=_PER_FN, name="verif_slice_periodic_snap_front", params="orig: f64, domain_i: f64", ret="i64",
                  stmts=[r"let normalized = [^;]*;", r"let u = \(normalized[^;]*;"], result="u")
_SL_SNAP_C = dict(file=BUILDER, fn_anchor=_PER_FN, name="verif_slice_periodic_snap_clamp", params="u: i64, canon_idx: usize, i: usize, perturb_units: &dyn Fn(usize, usize) -> i64", ret="f64",
                  stmts=[r"let min_off = [^;]*;", r"let max_off = [^;]*;", r"let off = [^;]*;", r"let adjusted_u = [^;]*;"], result="adjusted_u")
_SL_SNAP_B = dict(file=BUILDER, fn_anchor=_PER_FN, name="verif_slice_periodic_snap_back", params="adjusted_u: f64, domain_i: f64, i: usize, mut coords: [f64; D]", ret="[f64; D]",
                  stmts=[r"\bcoords\[i\] = [^;]*;"], result="coords")
_SL_PERIODIC = [_SL_PERT, _SL_SNAP_F, _SL_SNAP_C, _SL_SNAP_B]
K("builder.perturb_range", ["C16", "C19"], BUILDER, "builder_periodic.rs", "perturb_units_range_contract", "K-slice",
  [dict(file=BUILDER, name="DelaunayTriangulationBuilder::build_periodic (K-slice: the perturb_units closure)", anchor=_PER_FN)],
  slices=_SL_PERIODIC, timeout=900, obligations=["constant", "perturbation-range"],
  assumed=["K-slice: the `let perturb_units = |..| {..};` statement of build_periodic, verbatim, called with any (index, axis); everything else in build_periodic dropped"],
  claim="the per-(vertex, axis) hash perturbation of periodic construction is within +-MAX_OFFSET_UNITS grid units for EVERY index and axis (no `expect` fires)",
  mutant=dict(file=BUILDER, old="            i64::try_from(h % span).expect(\"residue fits in i64\") - MAX_OFFSET_UNITS\n        };", new="            i64::try_from(h % span).expect(\"residue fits in i64\") - MAX_OFFSET_UNITS + 1\n        };",
              desc="perturbation range shifted by one unit"))
for _nm, _har, _obl, _what, _mut in (
        ("front", "periodic_snap_front_contract", ["constant", "grid-index-range"], "statements `let normalized = ..;` `let u = ..;`: the grid index is in [0, 2^52 - 1] for every value of the quotient x / L",
         dict(file=BUILDER, old="let normalized = (orig / domain_i).clamp(0.0, 1.0 - f64::EPSILON);", new="let normalized = (orig / domain_i).clamp(0.0, 1.0);", desc="normalised coordinate may reach 1.0 (grid index 2^52)")),
        ("clamp", "periodic_snap_clamp_contract", ["perturbed-index-range", "perturbation-bounded"], "statements `let min_off`, `let max_off`, `let off`, `let adjusted_u`: the perturbed grid index stays in [0, 2^52 - 1] for every index and every perturbation in range",
         dict(file=BUILDER, old="let max_off = (TWO_POW_52_I64 - 1 - u).min(MAX_OFFSET_UNITS);", new="let max_off = (TWO_POW_52_I64 - u).min(MAX_OFFSET_UNITS);", desc="upper clamp of the perturbation off by one (stored coordinate can be exactly L)")),
        ("back", "periodic_snap_back_contract", ["stored-nonnegative", "stored-below-period"], "statement `coords[i] = ..;`: ((2^52 - 1) / 2^52) * L is in [0, L) for the LAST grid cell and every normal L > 0 "
         "(smaller indices: by monotonicity of IEEE multiplication in one operand, NOT proved - the query over all (a, L) ran into the 25 min cap)", None),
        ("back_unit", "periodic_snap_back_unit_contract", ["stored-in-unit-box"], "statement `coords[i] = ..;`: for L = 1 and every grid index a <= 2^52 - 1 the stored coordinate is in [0, 1)", None)):
    K("builder.periodic_snap." + _nm, ["C16", "C19"], BUILDER, "builder_periodic.rs", _har, "K-slice",
      [dict(file=BUILDER, name="DelaunayTriangulationBuilder::build_periodic (K-slice: per-axis grid snap, " + _nm + ")", anchor=_PER_FN)],
      slices=_SL_PERIODIC, tier="thorough" if _nm == "back" else "quick", timeout=3000 if _nm == "back" else 900, obligations=_obl,
      assumed=["K-slice of the canonical_f64 closure of build_periodic: " + _what + "; perturb_units passed as ANY function with values in +-MAX_OFFSET_UNITS (proved by builder.perturb_range); "
               "the three steps front / clamp / back compose by reading (u and adjusted_u are the only values passed on); everything else in build_periodic (image expansion, the Delaunay build, the quotient) dropped"],
      claim="periodic (image-point) construction, per-axis snap (" + _nm + "): " + _what, mutant=_mut)
K("builder.canonicalize_one", ["C16"], BUILDER, "builder.rs", "canonicalize_one_vertex_contract", "K-callee",
  [fn(BUILDER, "canonicalize_vertices")], tier="thorough", timeout=3600, no_playback=True,
  assumed=["GlobalTopologyModel::canonicalize_point_in_place replaced by an arbitrary model with an arbitrary periodic domain (rewrites or refuses); format! stubbed"],
  bounded="1 input vertex (2 vertices: unit builder.canonicalize_vertices, thorough tier)",
  obligations=["err-propagates", "same-length", "identity-kept", "coords-from-model", "untouched-axes", "err-only-from-model"],
  claim="canonicalize_vertices on one vertex, any coordinate and any periodic domain: the vertex always goes through the model, keeps UUID and data, a model error is returned",
  mutant=dict(file=BUILDER, old="            let new_vertex = Vertex::new_with_uuid(new_point, v.uuid(), v.data);", new="            let new_vertex = Vertex::new_with_uuid(new_point, v.uuid(), None);",
              desc="user data dropped while canonicalising"))

K("builder.canonicalize_one_ok", ["C16"], BUILDER, "builder.rs", "canonicalize_one_vertex_ok_contract", "K-callee",
  [fn(BUILDER, "canonicalize_vertices")], timeout=900, no_playback=True,
  assumed=["GlobalTopologyModel::canonicalize_point_in_place replaced by a model that accepts and rewrites every point, with an arbitrary periodic domain; format! stubbed"],
  bounded="1 input vertex, accepting model (the Err plumbing: builder.canonicalize_one / builder.canonicalize_vertices, thorough tier)",
  obligations=["same-length", "identity-kept", "coords-from-model", "untouched-axes"],
  claim="canonicalize_vertices on one vertex, any coordinate and any periodic domain: the vertex always goes through the model and keeps UUID and data")

# C04: the artefact filter of the brute-force violation finder is confined to D >= 4 (V-slice of the guard)
DVAL = "src/core/util/delaunay_validation.rs"
V("bruteforce_artifact_guard", ["C04"], [
    dict(kind="slice", file=DVAL, anchor=r"\bfn\s+validate_cell_delaunay\b", name="slice_artifact_guard", generics="<const D: usize>",
         stmt=r"if (?P<expr>D >= [^{]*?)\{\s*let is_artifact", params="", ret="bool", result="artifact_filter_applies",
         contract=dict(ensures=["r == (D >= 4)", "D <= 3 ==> !r"])),
], claim="validate_cell_delaunay (brute-force finder): the both-positive artefact filter is only consulted for D >= 4, so in D <= 3 every INSIDE verdict of the robust in-sphere predicate is reported "
         "(V-slice of the guard expression; the filter's body and the predicate are not under contract)",
   mutant=dict(file=DVAL, old="                if D >= 4 {\n                    let is_artifact", new="                if D >= 3 {\n                    let is_artifact",
               desc="brute-force artefact filter widened to D >= 3"))

# ======================================================================================
# C01 : the certification gate of batch construction (retry wrapper, K-callee)
# ======================================================================================
K("construct.retry_gate", ["C01"], DT, "dt_build.rs", "construction_retry_gate_contract", "K-callee",
  [fn(DT, "build_with_shuffled_retries")], tier="thorough", timeout=7200, mem_gb=24, no_playback=True,
  assumed=["build_with_kernel_inner_seeded (stub): returns SOME candidate (its Err outcomes are not exercised: the wrapper formats them with Display, which does not fit in CBMC); "
           "is_delaunay_property_only (stub): pure, any verdict; shuffle_vertices / construction_shuffle_seed (stubs: StdRng / hashing not modelled); format!, env::var_os stubbed"],
  bounded="1 shuffled retry, empty vertex slice (the wrapper never looks at the vertices itself)",
  obligations=["gate-consulted", "ok-is-certified-candidate", "ok-is-last-built", "retries-before-err"],
  claim="DelaunayTriangulation::build_with_shuffled_retries: Ok is returned only for the candidate that the brute-force Delaunay gate accepted (and that was built last); a rejected candidate leads to shuffled retries, then Err",
  mutant=dict(file=DT, old="            Ok(candidate) => match crate::core::util::is_delaunay_property_only(&candidate.tri.tds)\n            {\n                Ok(()) => return Ok(candidate),\n                Err(err) => format!(\"Delaunay property violated after construction: {err}\"),\n            },",
              new="            Ok(candidate) => return Ok(candidate),", desc="first candidate returned without consulting the Delaunay gate"))


_GATE_FN = r"fn build_with_shuffled_retries\("
_SL_GATE1 = dict(file=DT, fn_anchor=_GATE_FN, name="verif_slice_gate_first", params="candidate: Self", ret="Result<Self, ()>", where="where K::Scalar: ScalarSummable",
                 stmts=[dict(block=r"match [^{;]*?\{\s*Ok\(\(\)\) => return Ok\(candidate\),\s*Err\(err\) => format!", pre="let _verif_last_error: String = ", post=";")],
                 result="core::mem::forget(candidate);\n        Err(())")
_SL_GATE2 = dict(file=DT, fn_anchor=_GATE_FN, name="verif_slice_gate_retry", params="candidate: Self", ret="Result<Self, ()>", where="where K::Scalar: ScalarSummable",
                 stmts=[dict(block=r"match [^{;]*?\{\s*Ok\(\(\)\) => return Ok\(candidate\),\s*Err\(err\) => \{", pre="let mut last_error = String::new();\n        ", post=";")],
                 result="core::mem::forget(last_error);\n        core::mem::forget(candidate);\n        Err(())")
_GATE_OLD = {"first": "            Ok(candidate) => match crate::core::util::is_delaunay_property_only(&candidate.tri.tds)\n            {\n                Ok(()) => return Ok(candidate),",
             "retry": "                Ok(candidate) => {\n                    match crate::core::util::is_delaunay_property_only(&candidate.tri.tds) {\n                        Ok(()) => return Ok(candidate),"}
_GATE_NEW = {"first": "            Ok(candidate) => match candidate.is_valid()\n            {\n                Ok(()) => return Ok(candidate),",
             "retry": "                Ok(candidate) => {\n                    match candidate.is_valid() {\n                        Ok(()) => return Ok(candidate),"}
_STATS_FN0 = r"fn build_with_shuffled_retries_with_construction_statistics\("
_SL_GATE3 = dict(file=DT, fn_anchor=_STATS_FN0, name="verif_slice_gate_first_stats", params="candidate: Self, stats: ConstructionStatistics", ret="Result<(Self, ConstructionStatistics), ()>", where="where K::Scalar: ScalarSummable",
                 stmts=[dict(block=r"match [^{;]*?\{\s*Ok\(\(\)\) => return Ok\(\(candidate, stats\)\),\s*Err\(err\) => \{\s*last_stats\.replace\(stats\);\s*format!",
                             pre="let mut last_stats: Option<ConstructionStatistics> = None;\n        let _verif_last_error: String = ", post=";")],
                 result="core::mem::forget(last_stats);\n        core::mem::forget(candidate);\n        Err(())")
_SL_GATE4 = dict(file=DT, fn_anchor=_STATS_FN0, name="verif_slice_gate_retry_stats", params="candidate: Self, stats: ConstructionStatistics", ret="Result<(Self, ConstructionStatistics), ()>", where="where K::Scalar: ScalarSummable",
                 stmts=[dict(block=r"match [^{;]*?\{\s*Ok\(\(\)\) => return Ok\(\(candidate, stats\)\),\s*Err\(err\) => \{\s*last_stats\.replace\(stats\);\s*last_error =",
                             pre="let mut last_stats: Option<ConstructionStatistics> = None;\n        let mut last_error = String::new();\n        ", post=";")],
                 result="core::mem::forget(last_stats);\n        core::mem::forget(last_error);\n        core::mem::forget(candidate);\n        Err(())")
_GATE_SLICES = [_SL_GATE1, _SL_GATE2, _SL_GATE3, _SL_GATE4]
for _nm, _har, _fnname in (("first", "first_gate_contract", "build_with_shuffled_retries"), ("retry", "retry_gate_contract", "build_with_shuffled_retries"),
                           ("first_stats", "first_gate_stats_contract", "build_with_shuffled_retries_with_construction_statistics"), ("retry_stats", "retry_gate_stats_contract", "build_with_shuffled_retries_with_construction_statistics")):
    K("construct.gate." + _nm, ["C01"], DT, "dt_gate.rs", _har, "K-slice",
      [dict(file=DT, name=f"DelaunayTriangulation::{_fnname} (K-slice: acceptance gate, {_nm} attempt)", anchor=_GATE_FN if "stats" not in _nm else _STATS_FN0)],
      slices=_GATE_SLICES, timeout=900,
      assumed=["K-slice: the `match <check>(candidate) { Ok(()) => return Ok(candidate), Err(err) => .. }` expression of the attempt, verbatim, the candidate as a parameter "
               "(glue: `let .. =`/`;` around it, the rejected candidate is forgotten instead of dropped); everything else in the wrapper dropped (unit construct.retry_gate, manual, holds the whole-wrapper contract); "
               "is_delaunay_property_only (stub: pure, any verdict); DelaunayTriangulation::is_valid / validate (stubs: pure, any verdict independent of the brute-force one); format!, Display stubbed"],
      obligations=["gate-consulted", "ok-iff-certified"],
      claim=f"acceptance gate ({_nm}) of {_fnname}: a candidate leaves the retry wrapper as Ok iff the brute-force empty-circumsphere check accepted it",
      mutant=dict(file=DT, old=_GATE_OLD[_nm], new=_GATE_NEW[_nm], desc=f"{_nm} gate asks the flip-predicate verifier (is_valid) instead of the brute-force check") if _nm in _GATE_OLD else None)

_RETRY_PARAMS = ("kernel: &K, vertices: &[Vertex<K::Scalar, U, D>], topology_guarantee: TopologyGuarantee, attempts: NonZeroUsize, base_seed: Option<u64>, grid_cell_size: Option<K::Scalar>")
_RETRY_ABS = [dict(open=r"let mut last_error: String =\s*match Self::build_with_kernel_inner_seeded\w*\([^{}]*\) \{", body="r => { core::mem::forget(r); self::verif_kani_dt_retry::hook_first() }"),
              dict(open=r"\}\s*match Self::build_with_kernel_inner_seeded\w*\([^{}]*\) \{", body="r => { core::mem::forget(r); self::verif_kani_dt_retry::hook_retry(attempt, attempt_seed, perturbation_seed); }")]
_SL_SCHED1 = dict(file=DT, fn_anchor=_GATE_FN, name="verif_slice_retry_schedule_plain", params=_RETRY_PARAMS, ret="Result<Self, DelaunayTriangulationConstructionError>",
                  where="where K::Scalar: ScalarSummable", stmts=[dict(rest_of_fn_after=None, abstract=_RETRY_ABS)], result="")
_STATS_FN = r"fn build_with_shuffled_retries_with_construction_statistics\("
_SL_SCHED2 = dict(file=DT, fn_anchor=_STATS_FN, name="verif_slice_retry_schedule_stats", params=_RETRY_PARAMS,
                  ret="Result<(Self, ConstructionStatistics), DelaunayTriangulationConstructionErrorWithStatistics>",
                  where="where K::Scalar: ScalarSummable", stmts=[dict(rest_of_fn_after=None, abstract=_RETRY_ABS)], result="")
K("construct.retry_schedule", ["C14"], DT, "dt_retry.rs", "retry_schedules_agree_contract", "K-slice",
  [dict(file=DT, name="DelaunayTriangulation::build_with_shuffled_retries (K-slice: whole body, candidate handling abstracted)", anchor=_GATE_FN),
   dict(file=DT, name="DelaunayTriangulation::build_with_shuffled_retries_with_construction_statistics (K-slice: whole body, candidate handling abstracted)", anchor=_STATS_FN)],
  slices=[_SL_SCHED1, _SL_SCHED2], timeout=1800, no_playback=True,
  bounded="attempts = 2 (loop executed, not abstracted), one vertex (the wrappers never look at the vertices themselves); every base seed incl. the derived one",
  assumed=["K-slices: the whole bodies of both retry wrappers, verbatim, EXCEPT the arms of the two `match Self::build_with_kernel_inner_seeded*(..) { .. }` expressions in each (candidate acceptance, error "
           "formatting - storage code; the acceptance gates have their own units construct.gate.*), which are abstracted regions: every candidate counts as rejected and the region records the attempt number and the two seed LOCALS of that attempt "
           "(that these locals are what is passed to shuffle_vertices / the inner builder is by reading); inner builders, shuffle_vertices (stubs): no effect; construction_shuffle_seed (stub): a fixed value; format!, env::var_os stubbed"],
  obligations=["unshuffled-first", "same-attempt-numbers", "same-shuffle-seeds", "same-perturbation-seeds"],
  claim="the two shuffled-retry constructors (with and without construction statistics) run the same schedule of shuffle seeds and perturbation seeds for the same options and base seed "
        "(so the same vertices and options give the same cells whichever constructor is called)",
  mutant=dict(file=DT, old="            let perturbation_seed = attempt_seed ^ 0xD1B5_4A32_D192_ED03;\n\n            #[cfg(debug_assertions)]\n            if log_shuffle {\n                tracing::debug!(\n                    attempt,\n                    attempt_seed,\n                    perturbation_seed,\n                    \"build_with_shuffled_retries_with_construction_statistics: shuffled attempt starting\"",
              new="            let perturbation_seed = attempt_seed ^ 0xD1B5_4A32_D192_ED04;\n\n            #[cfg(debug_assertions)]\n            if log_shuffle {\n                tracing::debug!(\n                    attempt,\n                    attempt_seed,\n                    perturbation_seed,\n                    \"build_with_shuffled_retries_with_construction_statistics: shuffled attempt starting\"",
              desc="perturbation-seed constant of the statistics twin differs from the plain constructor's"))

K("tri.index_update", ["C09"], TRI, "tri_slices.rs", "index_update_uses_stored_coords_contract", "K-slice",
  [dict(file=TRI, name="Triangulation::insert_transactional (K-slice: index update after a committed insertion)", anchor=_SL_IDX["fn_anchor"])],
  slices=[_SL_ORI, _SL_IDX], extra_attach=[("src/core/cell.rs", "cell_helper.rs")], timeout=900,
  assumed=["K-slice: the single `if let Some(index) = index.as_deref_mut() ..` statement, everything else in insert_transactional dropped (the function itself does not fit CBMC: InsertionError); "
           "Tds::get_vertex_by_key (stub): the stored vertex with arbitrary stored coordinates; HashGridIndex::insert_vertex (stub): records the coordinates it is given"],
  obligations=["index-updated", "filed-under-stored-coords"],
  claim="index update of insert_transactional: the new vertex is filed under its STORED coordinates for every pair (stored, requested) of finite coordinate tuples",
  mutant=dict(file=TRI, old="                        index.insert_vertex(vertex_key, vertex.point().coords());", new="                        let _ = vertex;\n                        index.insert_vertex(vertex_key, &original_coords);",
              desc="the index files the vertex under the caller's original coordinates"))

_SL_INS_T = dict(file=DT, fn_anchor=_SL_INS["fn_anchor"], stmts=[dict(prefix_until=r"let snapshot = ")], params="&mut self",
                 name="verif_slice_insert_snapshot_taken", ret="bool", result="snapshot.is_some()")
_SL_INSS_T = dict(file=DT, fn_anchor=_SL_INSS["fn_anchor"], stmts=[dict(prefix_until=r"let snapshot = ")], params="&mut self",
                  name="verif_slice_insert_stats_snapshot_taken", ret="bool", result="snapshot.is_some()")
for nm, har in [("insert", "insert_snapshot_taken"), ("insert_with_statistics", "insert_stats_snapshot_taken")]:
    K(f"dt.snapshot_taken.{nm}", ["C03", "C02"], DT, "dt_slices2.rs", har, "K-slice",
      [dict(file=DT, name=f"DelaunayTriangulation::{nm} (K-slice: function prefix up to `let snapshot = ..;`)", anchor=(_SL_INS if nm == "insert" else _SL_INSS)["fn_anchor"])],
      slices=[_SL_INS_T, _SL_INSS_T], timeout=1200,
      bounded="insertion count <= 1024, EveryN n <= 16; K-slice: the whole prefix of the function up to the snapshot statement (helpers it calls are real code), the rest dropped",
      assumed=["Tds::number_of_cells / number_of_vertices (stubs): any counts; ensure_spatial_index_seeded (stub: no-op)", "that the snapshot is restored on every Err of the closure is NOT decided"],
      obligations=["snapshot-exists-when-poststep"],
      claim=f"DelaunayTriangulation::{nm}: when the insertion starts, a rollback snapshot exists whenever a post-insertion step can run for it - however the decision is computed (robust to refactoring into helpers)")

K("flip.k2_pass", ["C04", "C08"], FLIPS, "flips_k2pass.rs", "k2_pass_reports_violation_contract", "K-callee",
  [fn(FLIPS, "verify_postcondition_k2_facets")], timeout=1500, no_playback=True,
  bounded="queue with one facet (the loop body is the same for every facet)",
  assumed=["build_k2_flip_context (stub): some context; is_delaunay_violation_k2 (stub): any verdict or failure (formula: V-slice violation_formula); k2_flip_would_create_degenerate_cell (stub): any verdict; "
           "find_cell_containing_simplex (stub): any answer - stands for any other query about the complex a rewritten pass might consult; repair_trace_enabled, env::var_os, format! stubbed"],
  obligations=["violation-reported", "no-spurious-failure"],
  claim="k=2 facet pass of the flip-predicate verifier: a facet whose predicate reports a violation with a non-degenerate flip makes the verifier fail - it is never deferred or skipped; no failure without a reported violation",
  mutant=dict(file=FLIPS, old="                if flip_degenerate {\n                    if repair_trace_enabled() {\n                        tracing::debug!(\n                            \"[repair] postcondition k=2 violation unresolved due to degenerate flip (facet={facet:?})\"",
              new="                if flip_degenerate || config.attempt > 0 {\n                    if repair_trace_enabled() {\n                        tracing::debug!(\n                            \"[repair] postcondition k=2 violation unresolved due to degenerate flip (facet={facet:?})\"",
              desc="k=2 violations skipped on every attempt but the first"))
K("flip.local_postcondition", ["C04", "C08"], FLIPS, "flips_verify.rs", "local_postcondition_contract", "K-callee",
  [fn(FLIPS, "verify_repair_postcondition_locally"), fn(FLIPS, "verify_repair_postcondition")], timeout=1500,
  assumed=["seed_repair_queues and the four verify_postcondition_* functions (stubs): any verdict, queues untouched - their bodies (predicates on real cells) are NOT verified; Tds::is_connected (stub): any answer"],
  bounded="queues created empty by RepairQueues::new() (their drop loops unwound once, unwinding assertions on)",
  obligations=["conjunction", "all-consulted"],
  claim="verify_repair_postcondition_locally (the verdict behind is_valid / is_delaunay_via_flips and behind every repair's Ok): Ok <=> seeding, k=2, k=3, inverse k=2, inverse k=3 and connectivity all pass; every verifier consulted",
  mutant=dict(file=FLIPS, old="    verify_postcondition_inverse_k2_edges(\n        tds,\n        kernel,\n        &mut queues.edge_queue,\n        &config,\n        &mut diagnostics,\n    )?;\n", new="",
              desc="the inverse k=2 edge check dropped from the Delaunay verdict"))

for nm, d, b, tier in [("d1b4", 1, 4, "quick"), ("d2b31", 2, 31, "thorough")]:
    K(f"hilbert.quantize.{nm}", ["C17", "C19"], HIL, "hilbert.rs", f"hilbert_quantize_d{d}_b{b}", "K-full", [fn(HIL, "hilbert_quantize")], tier=tier, timeout=1800,
      obligations=["quantize-in-grid", "quantize-valid-bits-ok"],
      claim=f"hilbert_quantize::<f64,{d}>(coords, bounds, {b}) for EVERY f64 coordinate and bound (NaN, infinities, inverted / degenerate bounds): Ok, and every quantised coordinate < 2^bits; no panic")
K("hilbert.bad_parameters", ["C17", "C19"], HIL, "hilbert.rs", "hilbert_bad_parameters_contract", "K-full",
  [fn(HIL, "hilbert_quantize"), fn(HIL, "hilbert_index"), fn(HIL, "hilbert_indices_prequantized")], timeout=900,
  obligations=["quantize-bad-bits", "index-bad-bits", "bulk-bad-bits", "index-overflow", "bulk-overflow"],
  claim="hilbert_quantize / hilbert_index / hilbert_indices_prequantized: bits == 0 or > 31 => InvalidBitsParameter; D*bits > 128 => IndexOverflow (never a wrapped index, never a panic)",
  mutant=dict(file=HIL, old="    // Validate overflow\n    let total_bits = u128::from(d_u32) * u128::from(bits);\n    if total_bits > 128 {\n        return Err(HilbertError::IndexOverflow {\n            dimension: D,\n            bits,\n            total_bits,\n        });\n    }\n\n    if D == 0 {\n        return Ok(0);\n    }",
              new="    // Validate overflow\n    let total_bits = u128::from(d_u32) * u128::from(bits);\n    if total_bits > 256 {\n        return Err(HilbertError::IndexOverflow {\n            dimension: D,\n            bits,\n            total_bits,\n        });\n    }\n\n    if D == 0 {\n        return Ok(0);\n    }",
              desc="index overflow guard of hilbert_index relaxed to 256 bits"))

_SL_RMC = dict(file=TDS, fn_anchor=r"pub fn remove_cells_by_keys\(&mut self, cell_keys: &\[CellKey\]\) -> usize", name="verif_slice_remove_cells_tail",
               params="&mut self, removed_count: usize, affected_vertices: crate::core::collections::VertexKeySet, cells_to_remove: CellKeySet, candidate_incident: crate::core::collections::FastHashMap<VertexKey, CellKey>",
               ret="usize", stmts=[dict(rest_of_block_after=r"let removed_count = self\.remove_cells_and_update_uuid_mappings")], result="")
K("tds.remove_cells_tail", ["C11"], TDS, "tds_slices.rs", "remove_cells_tail_bumps_generation_contract", "K-slice",
  [dict(file=TDS, name="Tds::remove_cells_by_keys (K-slice: everything after the removal step)", anchor=_SL_RMC["fn_anchor"])], slices=[_SL_RMC], timeout=900,
  assumed=["K-slice: the tail of remove_cells_by_keys after `let removed_count = ..;` (frontier collection and the removal itself dropped); repair_incident_cells_after_cell_removal (stub: no-op)"],
  obligations=["count", "bump-on-removal", "incidence-repaired", "no-bump-without-change"],
  claim="Tds::remove_cells_by_keys, tail after the removal step, for every removed count: removed > 0 => generation bumped exactly once and incidence repaired; removed == 0 => no bump",
  mutant=dict(file=TDS, old="        // Bump generation once for all removals (neighbors + incidence + cell storage).\n        self.bump_generation();\n", new="",
              desc="generation bump after bulk cell removal deleted"))

for nm, fname in [("is_point_outside", "is_point_outside"), ("find_visible", "find_visible_facets"), ("find_nearest", "find_nearest_visible_facet"), ("facet_visible", "is_facet_visible_from_point")]:
    K(f"hull.stale_fast.{nm}", ["C11", "C19"], HULL, "hull.rs", f"hull_stale_fast_{nm}", "K-callee", [fn(HULL, fname, anchor=r"pub fn " + fname + r"\(")],
      tier="quick" if nm in ("find_visible", "facet_visible") else "thorough", timeout=900 if nm in ("find_visible", "facet_visible") else 5400,
      assumed=_HULL_ASSUME + ["is_facet_visible_from_point_with_cache (stub): only records that it was reached (its own staleness re-check: thorough-tier unit hull.stale.*)"],
      obligations=["stale-" + nm.replace("_", "-"), "refused-first"], bounded="hull with one facet handle; all pairs of distinct u64 generations; any query point",
      claim=f"ConvexHull::{fname} on a hull whose triangulation changed returns StaleHull before any cache build and before any per-facet work, for all pairs of distinct generations",
      mutant=dict(file=HULL, old="        let visible_facets = self.find_visible_facets(point, tri)?;\n        Ok(!visible_facets.is_empty())",
                  new="        let visible_facets = self.find_visible_facets(point, tri).unwrap_or_default();\n        Ok(!visible_facets.is_empty())",
                  desc="is_point_outside swallows the StaleHull error") if nm == "is_point_outside" else None)
_C19_QUICK |= {"hull.stale_fast.facet_visible"}
for _u in UNITS:
    if _u["id"].startswith("hull.stale_fast.") and _u["id"] not in _C19_QUICK:
        _u.setdefault("tier_for", {})["C19"] = "thorough"

# ======================================================================================
# C06 / C03 : fan path of Triangulation::remove_vertex - finalisation sequence (K-slice)
# ======================================================================================
_SL_FAN = dict(file=TRI, fn_anchor=r"pub\(crate\) fn remove_vertex\(\s*&mut self,\s*vertex: &Vertex<K::Scalar, U, D>,\s*\) -> Result<usize, TdsMutationError>",
               name="verif_slice_fan_tail", params="&mut self, mut cells_removed: usize, new_cells: CellKeyBuffer, vertex: &Vertex<K::Scalar, U, D>",
               ret="Result<usize, TdsMutationError>", stmts=[dict(rest_of_block_after=r"let mut cells_removed = self\.tds\.remove_cells_by_keys\(&cells_to_remove\)",
                           abstract=[dict(open=r"if let Some\(issues\) = self\.detect_local_facet_issues\(&new_cells\)\? \{", body="let _ = (&issues, &mut cells_removed);")])], result="")
K("tri.fan_tail", ["C06", "C03"], TRI, "tri_fan.rs", "fan_tail_contract", "K-slice",
  [dict(file=TRI, name="Triangulation::remove_vertex (K-slice: retriangulation closure after the fan replaced the star)", anchor=_SL_FAN["fn_anchor"])],
  slices=[_SL_FAN], tier="quick", timeout=2400, mem_gb=20,
  assumed=["K-slice: the tail of the retriangulation closure after `let mut cells_removed = ..;`; the fan construction, neighbour wiring and cell removal before it are dropped; "
           "the body of the over-shared-facet repair branch (`if let Some(issues) = self.detect_local_facet_issues(..)? { .. }`) is an ABSTRACTED region (its map is a hash map; with it the query did not finish in 2 h); "
           "all seven callees stubbed (any verdict, no state change); canonicalize_global_orientation_sign's Err is not exercised (InsertionError drop glue)"],
  obligations=["fan-finalisation-conjunction", "fan-count", "fan-all-consulted"],
  claim="Triangulation::remove_vertex, fan path: success <=> facet-issue detection, orientation normalisation, sign canonicalisation, GLOBAL geometric-orientation validation, incidence rebuild and vertex removal all succeed; any failure => Err (snapshot restored by the caller of the closure)",
  mutant=dict(file=TRI, old="            self.validate_geometric_cell_orientation().map_err(|e| {\n                TdsValidationError::InconsistentDataStructure {\n                    message: format!(\n                        \"Geometric orientation validation failed after fan retriangulation: {e}\",\n                    ),\n                }\n            })?;\n",
              new="", desc="geometric-orientation validation after fan retriangulation dropped"))

_SL_FANR = dict(file=TRI, fn_anchor=_SL_FAN["fn_anchor"], name="verif_slice_fan_restore", params="&mut self", ret="Result<usize, TdsMutationError>",
                where="where K::Scalar: CoordinateScalar",
                stmts=[dict(rest_of_fn_after=r"let apex_vertex_key = self\.pick_fan_apex\(",
                            abstract=[dict(open=r"\(\|\| -> Result<usize, TdsMutationError> \{", body="self::verif_kani_tri_restore::region(&mut self.tds)")])],
                result="")
K("tri.fan_restore", ["C03", "C06"], TRI, "tri_restore.rs", "fan_restore_contract", "K-slice",
  [dict(file=TRI, name="Triangulation::remove_vertex (K-slice: rollback protocol around the retriangulation closure)", anchor=_SL_FAN["fn_anchor"])],
  slices=[_SL_FANR], timeout=1800,
  assumed=["K-slice: everything in Triangulation::remove_vertex after `let apex_vertex_key = ..?;`, verbatim, EXCEPT the body of the retriangulation closure, which is abstracted to "
           "`region(&mut self.tds)` = any change of the Tds followed by any outcome (the closure body is storage code; unit tri.fan_tail, manual, holds its own contract); "
           "the lookups before the snapshot (vertex key, incident cells, cavity boundary, apex) are dropped"],
  obligations=["ok-count", "err-from-region", "err-restores"],
  claim="fan path of Triangulation::remove_vertex: whatever the destructive retriangulation did before failing, Err leaves the Tds exactly as it was (snapshot restored); Ok(n) is the retriangulation's result",
  mutant=dict(file=TRI, old="            Err(error) => {\n                self.tds = tds_snapshot;\n                Err(error)\n            }", new="            Err(error) => {\n                drop(tds_snapshot);\n                Err(error)\n            }",
              desc="snapshot restore after a failed fan retriangulation deleted"))

_SL_TXN = dict(file=TRI, fn_anchor=r"fn insert_transactional\(", name="verif_slice_txn_attempt",
               params="&mut self, current_vertex: Vertex<K::Scalar, U, D>, conflict_cells: Option<&CellKeyBuffer>, hint: Option<CellKey>, attempt: usize, max_perturbation_attempts: usize, "
                      "mut stats: InsertionStatistics, mut index: Option<&mut HashGridIndex<K::Scalar, D>>, mut last_retryable_error: Option<InsertionError>",
               ret="Result<(InsertionOutcome, InsertionStatistics), InsertionError>", where="where K::Scalar: CoordinateScalar",
               stmts=[dict(rest_of_block_after=r"if let Some\(error\) = self\.duplicate_coordinates_error\(", anchor_is_block=True, wrap_loop=True)],
               result="core::mem::forget(last_retryable_error);\n        Err(InsertionError::NonManifoldTopology { facet_hash: self::verif_kani_tri_txn::FELL_THROUGH, cell_count: 0 })")
for _nm, _obl in (("ok", ["attempted", "ok-inserted"]), ("dup", ["attempted", "dup-skipped", "failed-attempt-restores"]),
                  ("degenerate", ["attempted", "retry-while-budget", "degenerate-skipped", "failed-attempt-restores"]), ("structural", ["attempted", "structural-err", "failed-attempt-restores"])):
    K("tri.txn_attempt." + _nm, ["C02", "C03"], TRI, "tri_txn.rs", "txn_attempt_" + _nm, "K-slice",
      [dict(file=TRI, name="Triangulation::insert_transactional (K-slice: one attempt of the retry loop after the duplicate check)", anchor=r"fn insert_transactional\(")],
      slices=[_SL_TXN], timeout=2400, mem_gb=20,
      assumed=["K-slice: the remainder of the retry-loop body of insert_transactional after the duplicate-coordinate check (snapshot, attempt, outcome handling), verbatim, run once; "
               "perturbation, duplicate check and the code before the loop are dropped; glue: falling out of the loop body (= next attempt) returns a marker error; "
               "try_insert_with_topology_safety_net (stub): edits the Tds in ANY way, then reports the instance's outcome class (" + _nm + ": one concrete InsertionError variant - symbolic variants do not fit in CBMC); format! stubbed; no duplicate index"],
      obligations=_obl,
      claim="insert_transactional, one attempt, outcome class `" + _nm + "`: whatever the failed attempt did to the Tds, the snapshot is restored before the vertex is skipped, retried or refused; "
            "Ok => Inserted; duplicate => Skipped; retryable => next attempt iff budget remains; structural => Err",
      mutant=dict(file=TRI, old="                    // Any error - rollback to snapshot\n                    self.tds = tds_snapshot;\n", new="                    // Any error - rollback to snapshot\n                    if e.is_retryable() {\n                        self.tds = tds_snapshot;\n                    }\n",
                  desc="snapshot restored only for retryable failures") if _nm == "structural" else None)

_SL_EDGES = dict(file=TRI, fn_anchor=r"pub fn build_adjacency_index\(&self\)", name="verif_slice_index_edges",
                 params="vertices: &[VertexKey], mut seen_edges: FastHashSet<EdgeKey>, mut vertex_to_edges: FastHashMap<VertexKey, SmallBuffer<EdgeKey, MAX_PRACTICAL_DIMENSION_SIZE>>",
                 ret="(FastHashSet<EdgeKey>, FastHashMap<VertexKey, SmallBuffer<EdgeKey, MAX_PRACTICAL_DIMENSION_SIZE>>)",
                 stmts=[dict(rest_of_block_after=r"if let Some\(neighbors\) = cell\.neighbors\(\) \{", anchor_is_block=True, wrap_loop=True)], result="(seen_edges, vertex_to_edges)")
K("tri.index_edges_canonical", ["C15"], TRI, "tri_edges.rs", "edge_index_canonical_contract", "K-slice",
  [dict(file=TRI, name="Triangulation::build_adjacency_index (K-slice: vertex -> edges part of the per-cell loop body)", anchor=_SL_EDGES["fn_anchor"]),
   dict(file="src/core/edge.rs", name="EdgeKey::new", anchor=r"pub fn new\(a: VertexKey, b: VertexKey\) -> Self")],
  slices=[_SL_EDGES], tier="thorough", timeout=3000, no_playback=True,
  bounded="ONE concrete pair of vertex keys (slot 7 version 1, slot 1 version 3) in one cell with two vertices; the edge is already recorded, so no second hash entry is created on the unchanged code",
  assumed=["K-slice: the statements of the per-cell loop body of build_adjacency_index after the `if let Some(neighbors) = .. { .. }` block (run once); vertex -> cells and cell -> neighbours parts dropped; "
           "hashbrown with concrete keys only (one set entry)"],
  obligations=["new-order-free", "edge-keys-canonical"],
  claim="adjacency index: the edges of a cell are stored / looked up under the canonical EdgeKey (EdgeKey::new order) also when slot-map order and canonical order of the endpoints differ (reused vertex slot)",
  mutant=dict(file=TRI, old="                    let edge = EdgeKey::new(vertices[i], vertices[j]);\n                    if !seen_edges.insert(edge) {", new="                    let edge = EdgeKey::new(vertices[i], vertices[j]);\n                    if seen_edges.insert(edge) {",
              desc="edge dedup inverted in the adjacency index"))

_SL_WRAP = dict(file=TRI, fn_anchor=r"fn insert_transactional\(", name="verif_slice_insert_wrap", params="&self, vertex: Vertex<K::Scalar, U, D>",
                ret="Result<Vertex<K::Scalar, U, D>, TriangulationConstructionError>", where="where K::Scalar: CoordinateScalar",
                stmts=[r"let vertex = if self\.global_topology.*?\n        \};"], result="Ok(vertex)")
K("tri.later_insert_wrapped", ["C16"], TRI, "tri_wrap.rs", "later_insert_wrapped_contract", "K-slice",
  [dict(file=TRI, name="Triangulation::insert_transactional (K-slice: the `let vertex = if <periodic topology> { .. } else { vertex };` statement)", anchor=r"fn insert_transactional\(")],
  slices=[_SL_WRAP], timeout=2700, no_playback=True,
  assumed=["K-slice: the single statement `let vertex = if self.global_topology.. { .. } else { vertex };` at the top of insert_transactional, the rest dropped (that the insertion continues with THIS `vertex` binding is by reading); "
           "f64::rem_euclid replaced by its assumed contract (as in toroidal.* / canon_model.*); format! stubbed; D = 2, f64"],
  obligations=["later-insert-wrapped", "in-range-unchanged", "euclidean-untouched", "identity-kept"],
  claim="a vertex inserted AFTER construction into a triangulation with a toroidal global topology is wrapped into the half-open fundamental box like the vertices the builder wrapped, "
        "for every finite coordinate pair and every period pair; Euclidean triangulations insert the vertex as given (F9)",
  mutant=dict(file=TRI, old="        let vertex = if self.global_topology.model().periodic_domain().is_some() {", new="        let vertex = if false && self.global_topology.model().periodic_domain().is_some() {",
              desc="later insertions are no longer wrapped (F9 regression)"))

K("dt.level4_report", ["C04", "C05"], DT, "dt.rs", "level4_report_contract", "K-callee",
  [fn(DT, "validation_report", anchor=r"pub fn validation_report\(&self\) -> Result<\(\), TriangulationValidationReport>")], tier="thorough", timeout=5400,
  assumed=["Triangulation::validation_report (stub): Ok or a report with one violation (mapping kind or other); DelaunayTriangulation::is_valid (stub): any verdict"],
  bounded="lower-level report with at most one violation",
  obligations=["mapping-stop", "level4-evaluated", "report-iff-all-levels", "delaunay-entry-iff-violation", "nothing-lost"],
  claim="DelaunayTriangulation::validation_report: empty <=> Levels 1-3 report nothing and the Delaunay check passes; a DelaunayProperty entry appears exactly when is_valid fails; lower violations kept",
  mutant=dict(file=DT, old="                if let Err(e) = self.is_valid() {\n                    return Err(TriangulationValidationReport {\n                        violations: vec![InvariantViolation {",
              new="                if let Err(e) = self.is_valid() && false {\n                    return Err(TriangulationValidationReport {\n                        violations: vec![InvariantViolation {",
              desc="a Delaunay violation is not reported when the lower levels are clean"))

for _d in range(0, 7):
    K(f"bits.d{_d}", ["C14", "C17", "C19"], DT, "dt_bits.rs", f"bits_d{_d}", "K-full", [fn(DT, "hilbert_bits_per_coord"), fn(DT, "morton_bits_per_coord")],
      tier="quick" if _d in (2, 5) else "thorough", timeout=600, tier_for={"C19": "thorough"},
      obligations=(["hilbert-bits-d0"] if _d == 0 else ["hilbert-bits-precondition", "hilbert-bits-max"]) + (["morton-bits-unsupported"] if (_d < 2 or _d > 5) else ["morton-bits-precondition"]),
      claim=f"D = {_d}: the bit depth the Hilbert / Morton orderings choose satisfies the precondition of the curve functions (1 <= bits <= 31, D*bits <= 128; Morton D*bits <= 64), None outside the supported dimensions",
      mutant=dict(file=DT, old="    let bits_per_coord = (128_u32 / d_u32).min(31);", new="    let bits_per_coord = (128_u32 / d_u32).max(31);",
                  desc="Hilbert bit depth chosen with max instead of min (index would overflow)") if _d == 5 else None)

K("dt.check_after_insertion", ["C02"], DT, "dt_check.rs", "check_after_insertion_contract", "K-callee",
  [fn(DT, "maybe_check_after_insertion")], timeout=1200,
  assumed=["Tds::number_of_cells (stub): 0 or any positive count; DelaunayTriangulation::is_valid (stub): any verdict; Display of the validation error stubbed (message text not modelled)"],
  bounded="insertion count <= 1024, EveryN n <= 16",
  obligations=["check-only-when-due", "check-verdict-decides", "no-check-ok"],
  claim="maybe_check_after_insertion: the Delaunay level is evaluated only when the check policy is due (and cells exist), and then its verdict decides the insertion - 'when the per-insertion Delaunay check is enabled a reported insertion leaves the Delaunay level certified'",
  mutant=dict(file=DT, old="        self.is_valid()\n            .map_err(|e| InsertionError::DelaunayValidationFailed {\n                message: e.to_string(),\n            })",
              new="        let _ = self.is_valid();\n        Ok(())", desc="the per-insertion Delaunay check's verdict is ignored"))

K("tds.permutation_parity", ["C05"], TDS, "tds_perm.rs", "permutation_parity_contract", "K-bounded",
  [fn(TDS, "permutation_is_odd")], timeout=900, bounded="orders of 3 ids (facets of a 3-D cell / cells of a 2-D triangulation); all 27 id triples",
  obligations=["parity", "not-a-permutation", "length-mismatch"],
  claim="Tds::permutation_is_odd: parity of the permutation between two orders of three ids, None for non-permutations and length mismatch (the primitive behind the coherent-orientation check: a swapped vertex order flips the parity)",
  mutant=dict(file=TDS, old="                if target_positions[i] > target_positions[j] {\n                    is_odd = !is_odd;", new="                if target_positions[i] >= target_positions[j] {\n                    is_odd = !is_odd;",
              desc="inversion count uses >= (would matter only with repeated positions - expected NOT to be killed; kept to document the limit)") if False else
         dict(file=TDS, old="        for i in 0..target_positions.len() {\n            for j in (i + 1)..target_positions.len() {", new="        for i in 0..target_positions.len() {\n            for j in (i + 2)..target_positions.len() {",
              desc="inversion count skips adjacent pairs"))

_SL_VINC = dict(file=TDS, fn_anchor=r"fn validate_vertex_incidence\(&self\) -> Result<\(\), TdsValidationError>", name="verif_slice_vertex_incidence_decision",
                params="&self, vertex_key: VertexKey, incident_cell_key: CellKey", ret="Result<(), TdsValidationError>",
                stmts=[dict(rest_of_block_after=r"let Some\(incident_cell_key\) = vertex\.incident_cell else", wrap_loop=True)], result="Ok(())")
K("tds.vertex_incidence_decision", ["C05"], TDS, "tds_slices.rs", "vertex_incidence_decision_contract", "K-slice",
  [dict(file=TDS, name="Tds::validate_vertex_incidence (K-slice: loop body after the hint is read)", anchor=_SL_VINC["fn_anchor"])],
  slices=[_SL_RMC, _SL_VINC], extra_attach=[("src/core/cell.rs", "cell_helper.rs")], timeout=1200,
  assumed=["K-slice: the loop body of validate_vertex_incidence after `let Some(incident_cell_key) = ..;` (run once); vertex iteration dropped; one vertex-less dummy cell in real storage; format! stubbed"],
  bounded="one stored cell, one vertex key", obligations=["hint-must-contain-vertex"],
  claim="per-vertex decision of Tds::validate_vertex_incidence: a hint that is dangling or names a live cell not containing the vertex is rejected",
  mutant=dict(file=TDS, old="            if !incident_cell.contains_vertex(vertex_key) {", new="            if false && !incident_cell.contains_vertex(vertex_key) {", desc="membership scan of the incident cell disabled"))
for _u in UNITS:
    if _u["id"] == "tds.remove_cells_tail":
        _u["slices"] = [_SL_RMC, _SL_VINC]
        _u["extra_attach"] = [("src/core/cell.rs", "cell_helper.rs")]

K("dt.rebuild_keeps_vertices", ["C08"], DT, "dt_rebuild.rs", "rebuild_keeps_vertices_contract", "K-bounded",
  [fn(DT, "collect_vertices_for_rebuild")], extra_attach=[(TDS, "tds_helper.rs")], timeout=1200, no_playback=True,
  bounded="2 stored vertices (real slot-map storage), any coordinates and user data",
  obligations=["same-count", "uuid-kept", "data-kept", "coords-kept", "no-duplication"],
  claim="collect_vertices_for_rebuild (input of the heuristic rebuild in repair_delaunay_with_flips_advanced): the rebuilt triangulation is built from exactly the stored vertices - same UUID, bit-identical coordinates, same user data",
  mutant=dict(file=DT, old="            .map(|(_, vertex)| Vertex::new_with_uuid(*vertex.point(), vertex.uuid(), vertex.data))", new="            .map(|(_, vertex)| Vertex::new_with_uuid(*vertex.point(), vertex.uuid(), None))",
              desc="user data dropped when collecting vertices for the heuristic rebuild"))

K("dt.reseeded_index", ["C09"], DT, "dt_index.rs", "reseeded_index_contract", "K-full",
  [fn(DT, "ensure_spatial_index_seeded"), fn(DT, "empty", anchor=r"pub fn empty\(\) -> Self")], timeout=900,
  bounded="triangulation without vertices (the seeding loop runs 0 times)",
  obligations=["reseeded-usable", "reseeded-cell-covers-tolerance", "reseeded-same-as-fresh", "fresh-cell-size"],
  claim="ensure_spatial_index_seeded: the lazily rebuilt duplicate index is usable and its cell size is the duplicate tolerance (1e-10), like the index of a fresh triangulation - so near-duplicates within the tolerance fall into the neighbourhood the duplicate check inspects",
  mutant=dict(file=DT, old="            <K::Scalar as NumCast>::from(1e-10_f64).unwrap_or_else(K::Scalar::default_tolerance);\n        let mut index: HashGridIndex<K::Scalar, D> = HashGridIndex::new(duplicate_tolerance);",
              new="            K::Scalar::default_tolerance();\n        let mut index: HashGridIndex<K::Scalar, D> = HashGridIndex::new(duplicate_tolerance);",
              desc="re-seeded grid uses the scalar's default tolerance (1e-15) as cell size"))

# ======================================================================================
# Units that are written and attached on demand (`--unit ID`) but NOT part of any registered
# command: they do not finish within 45 min here (or were never seen to finish).
# They are listed in DESIGN.md 8.4 with what was observed.
# ======================================================================================
_MANUAL = {"construct.retry_gate", "dedup.quantized_fallback.n2", "dedup.quantized_fallback", "hull.stale.validate", "tri.index_edges_canonical", "flip.inserted_simplex_guard.kept", "flip.inserted_simplex_guard.removed", "tri.txn_attempt.ok", "tri.txn_attempt.dup", "tri.txn_attempt.degenerate", "tri.txn_attempt.structural", "tri.validation_report", "dt.level4_report", "order.seed", "facet_key.order_free", "dedup.n4",
           "tds.remove_cells_bump.k0", "tds.remove_cells_bump.k1", "tds.remove_cells_bump.k2",
           "tri.adjacent_cells.n2_nohint", "tri.adjacent_cells.n2_hint", "tri.adjacent_cells.n0_absent",
           "hull.stale.is_point_outside", "hull.stale.find_visible", "hull.stale.find_nearest", "hull.stale.facet_visible",
           "hull.stale_fast.is_point_outside", "hull.stale_fast.find_nearest", "builder.canonicalize_vertices", "dt.check_after_insertion"}
for _u in UNITS:
    if _u["id"] in _MANUAL:
        _u["tier"] = "manual"
        _u.pop("tier_for", None)
