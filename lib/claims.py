"""Per-property claim texts for MANIFEST.json (kept next to the unit registry)."""

HOOKS = {
    "guard": "delaunay_verif",
    "enable": "RUSTFLAGS=\"--cfg delaunay_verif\" (native replay tests only; proofs run on an add-only overlay of a scratch copy and need no hook)",
    "baseline_off_cmd": "cd /repo && cargo nextest run --workspace --no-fail-fast --offline --test-threads 8 || cargo test --workspace --no-fail-fast --offline",
    "source_commits": [],
    "add_only": True,
}

NOTES = ("Contract-based deductive verification of the real code. Every check decides a stated FRAGMENT of its property "
         "(DESIGN.md Section 5 names the fragment and the undecided remainder); exit 2 = undecided (lost anchor, tool limit, "
         "timeout, vacuity guard), never reported as a violation.")

_NOTE = ("Trusted: Kani 0.68/CBMC 6.11 and the rustc->goto translation, Verus/Z3, the mechanical extraction (drops docs, comments, "
         "lint attributes, visibility), dependency stubs for tracing (no-op) and arc-swap (sequential). Assumed callee contracts "
         "(K-callee stubs) are listed per unit in the evidence file. Dev profile only; termination not proved by Kani.")

CLAIMS = {
    "C01": dict(technique="deductive contracts: Verus on extracted accounting predicates; Kani K-full on ConstructionStatistics::record_insertion",
                text="PARTIAL proof: the accounting lemma behind 'reported inserted count = vertices present' (exactly one of inserted/skipped_duplicate/skipped_degeneracy grows by one per recorded insertion, chosen by the result; success XOR skipped). The geometric half (cells are Delaunay, certification gate behind Instant::now) is undecided.",
                note=_NOTE),
    "C02": dict(technique="deductive contracts: Verus decision tables + Kani caller-against-callee-contracts on validate_after_insertion",
                text="PARTIAL proof: which topology check runs after an insertion for every ValidationPolicy x TopologyGuarantee x suspicion vector x cell count, and that its verdict is returned; suspicion/validation decision tables for all values. That try_insert_impl yields a valid complex is undecided.",
                note=_NOTE),
    "C07": dict(technique="deductive contracts: Verus on extracted move arithmetic; Kani K-full on canonical handles",
                text="PARTIAL proof: move arithmetic (a k-move removes k and creates d+2-k cells, inverse is an involution) for every d and k, no overflow. Manifold preservation by the storage code of an applied flip is undecided.",
                note=_NOTE),
    "C08": dict(technique="deductive contracts: Verus on extracted admissibility gate / budget; Kani caller-against-callee-contracts on the three-attempt repair protocol",
                text="PARTIAL proof: repair proceeds only if the operation is admissible under the topology guarantee; the flip budget is finite, >= 512 and overflow-free for all cell counts. Convergence and Delaunay-ness of the engine's result are undecided.",
                note=_NOTE),
    "C15": dict(technique="deductive contracts: Verus on expected_chi_for; Kani K-full on euler_characteristic",
                text="PARTIAL proof: the Euler alternating sum and the expected-chi table (ball -> 1, closed sphere -> 1+(-1)^d). Adjacency queries over the storage code are undecided.",
                note=_NOTE),
    "C17": dict(technique="deductive contracts: Kani K-full over all pairs of grid cells on the private Hilbert transform",
                text="Proof per instance (D, bits): hilbert_index_from_quantized is injective with range [0, 2^(D*bits)) (hence bijective) and consecutive indices are L1-adjacent, for ALL grid cells of each listed instance. 'For all bits' is not claimed; dedup/ordering fragments are bounded (N <= 4) and labelled so.",
                note=_NOTE),
    "C10": dict(not_applicable="point location reads real Cells in slot-map storage: every CBMC probe holding Cells exceeded 20-65 GB or 20 min; Verus cannot express the f64 orientation predicates. No contract within reach decides containment."),
    "C12": dict(not_applicable="the claim is about floating-point rounding of an LU factorisation with fma against a tolerance: Verus leaves f64 uninterpreted, CBMC needs >25 min for a 2x2 elimination; no contract within reach."),
    "C13": dict(not_applicable="serde visitor code over slotmap/hash-map (de)serialisers and a neighbour rebuild in storage code: neither verifier can execute or specify it."),
    "C18": dict(not_applicable="relative-error agreement of Gram-determinant / LU / sqrt formulas with exact rational arithmetic: same floating-point obstruction as C12."),
}
