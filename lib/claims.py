"""Per-property claim texts for MANIFEST.json (kept next to the unit registry)."""

HOOKS = {
    "guard": "delaunay_verif",
    "enable": "RUSTFLAGS=\"--cfg delaunay_verif\" (native replay tests only; proofs run on an add-only overlay of a scratch copy and need no hook)",
    "baseline_off_cmd": "cd /repo && cargo nextest run --workspace --no-fail-fast --offline --test-threads 8 || cargo test --workspace --no-fail-fast --offline",
    "source_commits": [],
    "add_only": True,
}

NOTES = ("Contract-based deductive verification of the real code. Every check decides a stated FRAGMENT of its property "
         "(DESIGN.md Section 5 names the fragment and the undecided remainder); exit 2 = undecided (lost anchor, tool limit, "
         "timeout, vacuity guard), never reported as a violation.")

_NOTE = ("Trusted: Kani 0.68/CBMC 6.11 and the rustc->goto translation, Verus/Z3, the mechanical extraction (drops docs, comments, "
         "lint attributes, visibility), dependency stubs for tracing (no-op) and arc-swap (sequential). Assumed callee contracts "
         "(K-callee stubs) are listed per unit in the evidence file. Dev profile only; termination not proved by Kani.")

CLAIMS = {
    "C01": dict(technique="deductive contracts: Verus on extracted accounting predicates; Kani K-full on ConstructionStatistics::record_insertion; Kani K-slices of the acceptance gates of the retry wrappers",
                text="PARTIAL proof: the accounting lemma behind 'reported inserted count = vertices present' (exactly one of inserted/skipped_duplicate/skipped_degeneracy grows by one per recorded insertion, chosen by the result; success XOR skipped). The geometric half (cells are Delaunay, certification gate behind Instant::now) is undecided. Added: both acceptance gates of build_with_shuffled_retries let a candidate out iff the brute-force empty-circumsphere check accepted it (K-slices of the two match expressions).",
                note=_NOTE),
    "C02": dict(technique="deductive contracts: Verus decision tables + Kani caller-against-callee-contracts on validate_after_insertion",
                text="PARTIAL proof: which topology check runs after an insertion for every ValidationPolicy x TopologyGuarantee x suspicion vector x cell count, and that its verdict is returned; suspicion/validation decision tables for all values. That try_insert_impl yields a valid complex is undecided.",
                note=_NOTE),
    "C07": dict(technique="deductive contracts: Verus on extracted move arithmetic; Kani K-full on canonical handles",
                text="PARTIAL proof: move arithmetic (a k-move removes k and creates d+2-k cells, inverse is an involution) for every d and k, no overflow. Manifold preservation by the storage code of an applied flip is undecided. Added: the inserted-simplex legality guard of apply_bistellar_flip_with_k with the real helper on one stored cell (K-slice, bounded: D = 3).",
                note=_NOTE),
    "C08": dict(technique="deductive contracts: Verus on extracted admissibility gate / budget; Kani caller-against-callee-contracts on the three-attempt repair protocol",
                text="PARTIAL proof: repair proceeds only if the operation is admissible under the topology guarantee; the flip budget is finite, >= 512 and overflow-free for all cell counts. Convergence and Delaunay-ness of the engine's result are undecided.",
                note=_NOTE),
    "C15": dict(technique="deductive contracts: Verus on expected_chi_for; Kani K-full on euler_characteristic",
                text="PARTIAL proof: the Euler alternating sum and the expected-chi table (ball -> 1, closed sphere -> 1+(-1)^d). Adjacency queries over the storage code are undecided.",
                note=_NOTE),
    "C17": dict(technique="deductive contracts: Kani K-full over all pairs of grid cells on the private Hilbert transform; Kani K-callee on the dedup fallbacks",
                text="Proof per instance (D, bits): hilbert_index_from_quantized is injective with range [0, 2^(D*bits)) (hence bijective) and consecutive indices are L1-adjacent, for ALL grid cells of each listed instance. 'For all bits' is not claimed; dedup/ordering fragments are bounded (N <= 4) and labelled so. Added: the hash-grid dedup helpers hand over to the grid-free fallback whenever the grid cannot key every vertex (2 vertices, bounded).",
                note=_NOTE),
    "C03": dict(technique="deductive contracts: Kani caller-against-callee-contracts (rollback postcondition `Err => state tag unchanged` for every callee outcome sequence); Kani K-slices (verbatim statements, abstracted regions) on the fan-path rollback",
                text="PARTIAL proof: `Err => triangulation unchanged` on the flip-repair wrapper (repair_delaunay_with_flips_k2_k3 and the public repair_delaunay_with_flips) and on DelaunayTriangulation::remove_vertex, for EVERY sequence of callee outcomes (every internal failure point), with the state modelled by a ghost tag inside the real Tds. The insertion wrappers (InsertionError does not fit CBMC), the fan-retriangulation closure and the rollback inside apply_bistellar_flip are NOT under contract. Added: the fan path of Triangulation::remove_vertex restores its snapshot whatever the (abstracted) retriangulation did before failing (K-slice with an abstracted region).",
                note=_NOTE),
    "C04": dict(technique="deductive contracts: Kani caller-against-callee-contracts on the Level-4 entry points; Verus on the extracted violation formula (V-slice); Kani K-callee on the k=2 verifier pass",
                text="PARTIAL proof: verdict plumbing - is_valid is Err exactly when the flip-predicate verifier reports a violation, validate == Levels 1-3 && Level 4; the k=2 violation formula (violates <=> an apex strictly inside, minus the D>=4 both-positive artefact). Agreement of kernel signs with exact arithmetic is not decidable here (floating point).",
                note=_NOTE),
    "C05": dict(technique="deductive contracts: Kani caller-against-callee-contracts (each level's validator == conjunction of its invariants); Kani K-full on element validity",
                text="PARTIAL proof: Tds::is_valid == conjunction of its nine invariants (fast-fail order), Triangulation::is_valid == conjunction of its eight invariants with guarantee-dependent link checks, validate == L1-2 && L3 && completion check, report <=> validate; element level: Vertex::is_valid <=> finite coordinates and v4 UUID for every f64 tuple and 128-bit UUID. That each sub-validator's BODY detects its fault class on arbitrary complexes is storage code and undecided.",
                note=_NOTE),
    "C06": dict(technique="deductive contracts: Kani caller-against-callee-contracts on DelaunayTriangulation::remove_vertex; Verus/Kani on the repair decision; Kani K-slices on the fan path of Triangulation::remove_vertex",
                text="PARTIAL proof: unknown vertex => Ok(0) and nothing touched; Ok(n) reports the count of the path that ran; repair runs iff the policy says so; Err => unchanged. Validity of the fan retriangulation itself is undecided (storage code). Added: fan path - success <=> every finalisation step incl. the GLOBAL geometric-orientation validation succeeded, and the rollback protocol around the retriangulation (K-slices; fan construction and the facet-issue repair branch abstracted).",
                note=_NOTE),
    "C09": dict(technique="deductive contracts: Kani caller-against-callee-contracts on index coherence; dedup greedy-filter contract under an arbitrary duplicate relation",
                text="PARTIAL proof: a vertex that enters through the Edit API drops the duplicate index (so the next insert re-seeds it from all vertices); mutable accessors drop it; batch dedup functions equal the greedy filter for every duplicate relation (N <= 4, bounded). insert_transactional's own index update and the UUID map are not under contract.",
                note=_NOTE),
    "C11": dict(technique="deductive contracts: Kani caller-against-callee-contracts, one hull query per harness, all pairs of generations; Kani K-full on snapshot/generation sharing",
                text="PARTIAL proof: the validity predicate <=> equality of generations, for all pairs; find_visible_facets / is_facet_visible_from_point refuse a stale hull before any cache build or per-facet work for all pairs of distinct generations (per-facet helper stubbed); validate / is_point_outside / find_nearest_visible_facet for concrete generation pairs only (quick: validate; thorough: the others); generation bumps are exactly +1. That every mutator bumps (storage code) and that the facets are the geometric hull are undecided. Added: a Tds snapshot (clone) shares the generation counter, so bumps made by a failed operation survive the rollback.",
                note=_NOTE),
    "C14": dict(technique="deductive contracts: Kani K-full comparator lemmas over all f64; K-callee on the Hilbert ordering with an arbitrary grid-cell function; Kani K-slice on the two retry wrappers (same seed schedule)",
                text="PARTIAL proof: ordering keys depend on coordinates only (total, lexicographic, antisymmetric, transitive; UUID/data ignored); Hilbert and lexicographic orderings of two distinct points do not depend on the caller's order (also inside one grid cell); shuffle seed is order-free (N <= 3, bounded). Equality of the resulting cell sets is undecided.",
                note=_NOTE),
    "C16": dict(technique="deductive contracts: Kani on the three wrapping functions with f64::rem_euclid replaced by its assumed contract; Kani K-slices on the periodic grid snap",
                text="Proof of the wrapping contract for every f64 value, period and axis: result in [0, period), in-range values unchanged, idempotent, errors refuse and (bad configuration) leave the point untouched - for ToroidalSpace::wrap_coord / canonicalize_point and ToroidalModel::canonicalize_point_in_place (f64, f32). Congruence modulo the period rests on the assumed exactness of fmod; periodic image construction is undecided. Added: periodic (image-point) construction: per-axis grid snap and clamped hash perturbation keep every stored coordinate in [0, L) (K-slices front / clamp / back, all values; perturbation range for every index). Added with the repair of F9 (d8c7375): a vertex inserted after construction into a toroidal triangulation is wrapped into [0, L) before the insertion engine sees it (K-slice of the statement at the top of insert_transactional).",
                note=_NOTE),
    "C19": dict(technique="deductive contracts: union of the no-panic obligations (overflow, bounds, unwrap, unreachable, debug_assert) of every function under contract",
                text="PARTIAL proof: every function under contract in the other units is panic-free for all inputs meeting its stated precondition (Kani default checks + unwinding assertions), non-finite coordinates are refused by Point::validate / Vertex::is_valid, flip budget finite. Termination of the engines and panic-freedom of storage code are undecided.",
                note=_NOTE),
    "C10": dict(not_applicable="point location reads real Cells in slot-map storage: every CBMC probe holding Cells exceeded 20-65 GB or 20 min; Verus cannot express the f64 orientation predicates. No contract within reach decides containment."),
    "C12": dict(not_applicable="the claim is about floating-point rounding of an LU factorisation with fma against a tolerance: Verus leaves f64 uninterpreted, CBMC needs >25 min for a 2x2 elimination; no contract within reach."),
    "C13": dict(not_applicable="serde visitor code over slotmap/hash-map (de)serialisers and a neighbour rebuild in storage code: neither verifier can execute or specify it."),
    "C18": dict(not_applicable="relative-error agreement of Gram-determinant / LU / sqrt formulas with exact rational arithmetic: same floating-point obstruction as C12."),
}
