//! F7 (C05): `validation_report()` must be empty exactly when `validate()` passes.
//! The Triangulation-level report never ran `validate_at_completion()` (the vertex-link check
//! that `validate()` runs under the default PLManifold guarantee), so it was empty while
//! `validate()` failed.  Witness: a cone over an annulus (apex + two concentric lifted
//! triangles, carved out of a Delaunay triangulation with the public Tds API).
//! Fails on the pinned tree, passes after the `fix:` commit.
use delaunay::prelude::triangulation::*;

#[test]
fn f7_validation_report_is_empty_only_if_validate_passes() {
    let lift = |x: f64, y: f64| [x, y, 1.0 + 0.05 * (x * x + y * y)];
    let apex = vertex!([0.0, 0.0, 0.0]);
    let outer = [lift(4.0, 0.0), lift(-2.0, 3.5), lift(-2.0, -3.5)];
    let inner = [lift(-1.0, 0.1), lift(0.5, -0.9), lift(0.45, 0.8)];
    let mut vertices = vec![apex];
    vertices.extend(outer.iter().map(|c| vertex!(*c)));
    vertices.extend(inner.iter().map(|c| vertex!(*c)));
    let apex_uuid = vertices[0].uuid();
    let inner_uuids: Vec<_> = vertices[4..7].iter().map(|v| v.uuid()).collect();
    let dt: DelaunayTriangulation<_, (), (), 3> = DelaunayTriangulation::new(&vertices).unwrap();

    // keep only the cells that contain the apex and do not span the whole inner triangle
    let mut tds = dt.tds().clone();
    let apex_key = tds.vertex_key_from_uuid(&apex_uuid).unwrap();
    let inner_keys: Vec<_> = inner_uuids.iter().map(|u| tds.vertex_key_from_uuid(u).unwrap()).collect();
    let doomed: Vec<_> = tds
        .cells()
        .filter(|(_, c)| {
            let vs = c.vertices();
            !vs.contains(&apex_key) || inner_keys.iter().all(|k| vs.contains(k))
        })
        .map(|(k, _)| k)
        .collect();
    assert!(!doomed.is_empty());
    tds.remove_cells_by_keys(&doomed);
    let carved: DelaunayTriangulation<_, (), (), 3> = DelaunayTriangulation::from_tds(tds, delaunay::geometry::kernel::FastKernel::new());
    let tri = carved.as_triangulation();

    let validate = tri.validate();
    let report = carved.validation_report();
    println!("validate = {validate:?}\nreport = {:?}", report.as_ref().map_err(|r| r.violations.len()));
    // the scenario must be the interesting one: lower levels fine, completion check fails
    assert!(carved.tds().validate().is_ok() && tri.is_valid().is_ok() && validate.is_err(), "witness lost: {validate:?}");
    assert!(report.is_err(), "validation_report() is empty although validate() fails: {validate:?}");
}
