//! F2 (C09): a vertex added through the Edit API (`flip_k1_insert`) bypassed the duplicate
//! index, so a later `insert` at the same coordinates was accepted.
//! Fails on the pinned tree (second vertex at the centroid accepted), passes after the `fix:`.
use delaunay::prelude::triangulation::flips::*;
use delaunay::prelude::triangulation::*;

#[test]
fn f2_insert_after_flip_k1_insert_rejects_duplicate_coordinates() {
    let vertices = vec![
        vertex!([0.0, 0.0]),
        vertex!([4.0, 0.0]),
        vertex!([4.0, 4.0]),
        vertex!([0.0, 4.0]),
    ];
    let mut dt: DelaunayTriangulation<_, (), (), 2> = DelaunayTriangulation::new(&vertices).unwrap();
    // seed the duplicate index with an ordinary insertion
    dt.insert(vertex!([1.0, 0.5])).unwrap();
    // pick any cell and split it at its centroid through the Edit API
    let (ck, centroid) = {
        let (ck, cell) = dt.cells().next().unwrap();
        let mut c = [0.0_f64; 2];
        for &vk in cell.vertices() {
            let p = dt.vertex_coords(vk).unwrap();
            c[0] += p[0] / 3.0;
            c[1] += p[1] / 3.0;
        }
        (ck, c)
    };
    dt.flip_k1_insert(ck, vertex!(centroid)).unwrap();
    let n = dt.number_of_vertices();
    let r = dt.insert(vertex!(centroid));
    assert!(r.is_err(), "inserting at the coordinates of an existing vertex was accepted");
    assert_eq!(dt.number_of_vertices(), n);
}
