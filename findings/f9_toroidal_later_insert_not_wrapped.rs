//! F9 (C16, repaired by /repo commit d8c7375): a vertex inserted AFTER a `.toroidal(..)` build was
//! stored unwrapped.  Native witness - copy to `<repo>/tests/` and run
//! `cargo test --offline --test f9_toroidal_later_insert_not_wrapped -- --nocapture`.
//! Observed on the pinned tree + fix commits up to 92fe197: `insert` returned Ok and the
//! triangulation then held the vertex [1.6, 0.4] in a domain of period [1, 1]; passes since d8c7375.
use delaunay::core::builder::DelaunayTriangulationBuilder;
use delaunay::prelude::triangulation::*;

#[test]
fn later_insert_is_wrapped() {
    let vs = vec![vertex!([0.1, 0.1]), vertex!([0.9, 0.2]), vertex!([0.5, 0.8]), vertex!([0.3, 0.5])];
    let mut dt = DelaunayTriangulationBuilder::new(&vs).toroidal([1.0, 1.0]).build::<()>().expect("build");
    let r = dt.insert(vertex!([1.6, 0.4]));
    println!("insert result: {r:?}");
    for (_, v) in dt.vertices() {
        let c = v.point().coords();
        assert!(c[0] >= 0.0 && c[0] < 1.0 && c[1] >= 0.0 && c[1] < 1.0, "vertex {c:?} outside the fundamental box after a later insertion");
    }
}
