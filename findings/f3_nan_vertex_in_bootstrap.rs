//! F3 (C19 / C02): a vertex with a NaN coordinate (buildable through the public
//! `VertexBuilder` + `Point::new`) was accepted by `insert` while the triangulation was still
//! in the bootstrap phase; afterwards the triangulation can never be completed.
//! Fails on the pinned tree (first insert returns Ok), passes after the `fix:` commit.
use delaunay::prelude::triangulation::*;
use delaunay::prelude::geometry::*;

#[test]
fn f3_non_finite_vertex_is_refused_before_it_enters() {
    let mut dt: DelaunayTriangulation<_, (), (), 2> = DelaunayTriangulation::empty();
    let bad: Vertex<f64, (), 2> = VertexBuilder::default()
        .point(Point::new([f64::NAN, 0.0]))
        .build()
        .unwrap();
    let r = dt.insert(bad);
    assert!(r.is_err(), "a NaN vertex was accepted: {r:?}");
    assert_eq!(dt.number_of_vertices(), 0);
    let inf: Vertex<f64, (), 2> = VertexBuilder::default()
        .point(Point::new([0.0, f64::INFINITY]))
        .build()
        .unwrap();
    assert!(dt.insert(inf).is_err(), "an infinite vertex was accepted");
    assert_eq!(dt.number_of_vertices(), 0);
    // the triangulation is still usable
    dt.insert(vertex!([0.0, 0.0])).unwrap();
    dt.insert(vertex!([1.0, 0.0])).unwrap();
    dt.insert(vertex!([0.0, 1.0])).unwrap();
    assert_eq!(dt.number_of_cells(), 1);
    assert!(dt.validate().is_ok());
}
