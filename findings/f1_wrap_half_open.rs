//! F1 (C16): toroidal wrapping must land in the half-open box [0, L).
//! Fails on the pinned tree (stored coordinate == period), passes after the `fix:` commit.
use delaunay::prelude::*;
use delaunay::topology::spaces::toroidal::ToroidalSpace;

#[test]
fn f1_wrap_coord_never_returns_period() {
    let space = ToroidalSpace::<2>::new([1.0, 1.0]);
    let w = space.wrap_coord::<f64>(0, -1e-20).unwrap();
    assert!((0.0..1.0).contains(&w), "wrap_coord(-1e-20) = {w}");
    let w32 = space.wrap_coord::<f32>(0, -1e-10_f32).unwrap();
    assert!((0.0..1.0).contains(&w32), "wrap_coord::<f32>(-1e-10) = {w32}");
    assert_eq!(space.wrap_coord::<f64>(0, w), Some(w), "idempotent");
}
