//! F4 (C03): a repair entry point that returns Err must leave the triangulation exactly as
//! it was.  `repair_delaunay_with_flips_k2_k3` snapshots the pre-repair state for its retries
//! but returned Err from several paths without restoring it, so the public
//! `repair_delaunay_with_flips()` could fail AND leave a half-repaired triangulation behind.
//! Fails on the pinned tree (seed 7: Err(PostconditionFailed), cell set changed), passes after
//! the `fix:` commit.  Scenario generator taken from the C08 seeded demonstration.
#![allow(dead_code)]
use delaunay::prelude::triangulation::flips::*;
use delaunay::prelude::triangulation::*;

type Dt3 = DelaunayTriangulation<delaunay::geometry::kernel::FastKernel<f64>, (), (), 3>;

// ---------------------------------------------------------------------------------------------
// Deterministic pseudo-random numbers (no dependency on `rand` so the input is fully pinned).
// ---------------------------------------------------------------------------------------------
struct Lcg(u64);
impl Lcg {
    fn next_u64(&mut self) -> u64 {
        self.0 = self
            .0
            .wrapping_mul(6_364_136_223_846_793_005)
            .wrapping_add(1_442_695_040_888_963_407);
        self.0 >> 11
    }
    fn unit(&mut self) -> f64 {
        (self.next_u64() % 1_000_003) as f64 / 1_000_003.0
    }
    fn below(&mut self, n: usize) -> usize {
        (self.next_u64() % n as u64) as usize
    }
}

// ---------------------------------------------------------------------------------------------
// Independent geometry oracle (plain f64; inputs are well separated random points).
// ---------------------------------------------------------------------------------------------
fn coords3(dt: &Dt3, v: VertexKey) -> [f64; 3] {
    let c = dt.vertex_coords(v).unwrap();
    [c[0], c[1], c[2]]
}
fn sub3(a: [f64; 3], b: [f64; 3]) -> [f64; 3] {
    [a[0] - b[0], a[1] - b[1], a[2] - b[2]]
}
fn dot3(a: [f64; 3], b: [f64; 3]) -> f64 {
    a[0] * b[0] + a[1] * b[1] + a[2] * b[2]
}
fn det3(u: [f64; 3], v: [f64; 3], w: [f64; 3]) -> f64 {
    u[0] * (v[1] * w[2] - v[2] * w[1]) - u[1] * (v[0] * w[2] - v[2] * w[0])
        + u[2] * (v[0] * w[1] - v[1] * w[0])
}
fn orient3(a: [f64; 3], b: [f64; 3], c: [f64; 3], d: [f64; 3]) -> f64 {
    det3(sub3(a, d), sub3(b, d), sub3(c, d))
}
fn det3_cols(c0: [f64; 3], c1: [f64; 3], c2: [f64; 3]) -> f64 {
    det3(
        [c0[0], c1[0], c2[0]],
        [c0[1], c1[1], c2[1]],
        [c0[2], c1[2], c2[2]],
    )
}

/// `true` iff `q` lies strictly inside the circumsphere of tetrahedron `p` (explicit
/// circumcentre via Cramer's rule, relative tolerance 1e-9).
fn strictly_inside_circumsphere(p: &[[f64; 3]; 4], q: [f64; 3]) -> bool {
    let (r1, r2, r3) = (sub3(p[1], p[0]), sub3(p[2], p[0]), sub3(p[3], p[0]));
    let rhs = [dot3(r1, r1) / 2.0, dot3(r2, r2) / 2.0, dot3(r3, r3) / 2.0];
    let det = det3(r1, r2, r3);
    let col = |k: usize| [r1[k], r2[k], r3[k]];
    // Solve M x = rhs with rows r1, r2, r3 (x is the circumcentre relative to p[0]).
    let dx = det3_cols(rhs, col(1), col(2));
    let dy = det3_cols(col(0), rhs, col(2));
    let dz = det3_cols(col(0), col(1), rhs);
    let centre = [dx / det, dy / det, dz / det];
    let radius2 = dot3(centre, centre);
    let dq = sub3(sub3(q, p[0]), centre);
    dot3(dq, dq) < radius2 * (1.0 - 1e-9)
}

/// Number of (cell, vertex) pairs that violate the empty-circumsphere property.
fn brute_force_violations(dt: &Dt3) -> usize {
    let verts: Vec<(VertexKey, [f64; 3])> =
        dt.vertices().map(|(k, _)| (k, coords3(dt, k))).collect();
    let mut bad = 0;
    for (_, cell) in dt.cells() {
        let vs = cell.vertices();
        let p = [
            coords3(dt, vs[0]),
            coords3(dt, vs[1]),
            coords3(dt, vs[2]),
            coords3(dt, vs[3]),
        ];
        for &(k, q) in &verts {
            if !vs.contains(&k) && strictly_inside_circumsphere(&p, q) {
                bad += 1;
            }
        }
    }
    bad
}

/// Canonical, key-independent description of the cell set (sorted coordinate bit patterns).
fn cell_set(dt: &Dt3) -> Vec<Vec<[u64; 3]>> {
    let mut out: Vec<Vec<[u64; 3]>> = dt
        .cells()
        .map(|(_, cell)| {
            let mut c: Vec<[u64; 3]> = cell
                .vertices()
                .iter()
                .map(|&v| coords3(dt, v).map(f64::to_bits))
                .collect();
            c.sort_unstable();
            c
        })
        .collect();
    out.sort_unstable();
    out
}

fn vertex_set(dt: &Dt3) -> Vec<[u64; 3]> {
    let mut out: Vec<[u64; 3]> = dt
        .vertices()
        .map(|(k, _)| coords3(dt, k).map(f64::to_bits))
        .collect();
    out.sort_unstable();
    out
}

fn total_volume(dt: &Dt3) -> f64 {
    dt.cells()
        .map(|(_, cell)| {
            let vs = cell.vertices();
            orient3(
                coords3(dt, vs[0]),
                coords3(dt, vs[1]),
                coords3(dt, vs[2]),
                coords3(dt, vs[3]),
            )
            .abs()
                / 6.0
        })
        .sum()
}

/// Segment `ab` strictly pierces the interior of triangle `pqr` (so that both the 2->3 flip of
/// facet `pqr` and the 3->2 flip of edge `ab` are geometrically legal).
fn segment_pierces_triangle(
    a: [f64; 3],
    b: [f64; 3],
    p: [f64; 3],
    q: [f64; 3],
    r: [f64; 3],
) -> bool {
    let (s1, s2, s3) = (orient3(a, b, p, q), orient3(a, b, q, r), orient3(a, b, r, p));
    let same = (s1 > 1e-9 && s2 > 1e-9 && s3 > 1e-9) || (s1 < -1e-9 && s2 < -1e-9 && s3 < -1e-9);
    same && orient3(p, q, r, a) * orient3(p, q, r, b) < -1e-12
}

/// Apply up to `count` geometrically legal 2->3 / 3->2 flips chosen pseudo-randomly.
fn random_legal_flips(dt: &mut Dt3, rng: &mut Lcg, count: usize) -> (usize, usize) {
    let (mut k2, mut k3) = (0, 0);
    let mut tries = 0;
    while k2 + k3 < count && tries < count * 200 {
        tries += 1;
        let cells: Vec<CellKey> = dt.cells().map(|(k, _)| k).collect();
        let ck = cells[rng.below(cells.len())];
        if rng.below(2) == 0 {
            // 2 -> 3 flip across facet `idx` of `ck`.
            let idx = rng.below(4);
            let (a, f, nk) = {
                let cell = dt.tds().get_cell(ck).unwrap();
                let Some(nk) = cell.neighbors().and_then(|n| n[idx]) else {
                    continue;
                };
                let vs = cell.vertices();
                let f: Vec<VertexKey> = (0..4).filter(|&i| i != idx).map(|i| vs[i]).collect();
                (vs[idx], f, nk)
            };
            let b = *dt
                .tds()
                .get_cell(nk)
                .unwrap()
                .vertices()
                .iter()
                .find(|v| !f.contains(v))
                .unwrap();
            if !segment_pierces_triangle(
                coords3(dt, a),
                coords3(dt, b),
                coords3(dt, f[0]),
                coords3(dt, f[1]),
                coords3(dt, f[2]),
            ) {
                continue;
            }
            if dt
                .flip_k2(FacetHandle::new(ck, u8::try_from(idx).unwrap()))
                .is_ok()
            {
                k2 += 1;
            }
        } else {
            // 3 -> 2 flip around the edge of `ck` obtained by omitting slots i and j.
            let i = rng.below(4);
            let j = (i + 1 + rng.below(3)) % 4;
            let (p, q) = {
                let vs = dt.tds().get_cell(ck).unwrap().vertices();
                let e: Vec<VertexKey> = (0..4)
                    .filter(|&x| x != i && x != j)
                    .map(|x| vs[x])
                    .collect();
                (e[0], e[1])
            };
            let around: Vec<CellKey> = dt
                .cells()
                .filter(|(_, c)| c.vertices().contains(&p) && c.vertices().contains(&q))
                .map(|(k, _)| k)
                .collect();
            if around.len() != 3 {
                continue;
            }
            let mut link: Vec<VertexKey> = Vec::new();
            for &c in &around {
                for &v in dt.tds().get_cell(c).unwrap().vertices() {
                    if v != p && v != q && !link.contains(&v) {
                        link.push(v);
                    }
                }
            }
            if link.len() != 3 {
                continue;
            }
            if !segment_pierces_triangle(
                coords3(dt, p),
                coords3(dt, q),
                coords3(dt, link[0]),
                coords3(dt, link[1]),
                coords3(dt, link[2]),
            ) {
                continue;
            }
            let h = RidgeHandle::new(ck, u8::try_from(i).unwrap(), u8::try_from(j).unwrap());
            if dt.flip_k3(h).is_ok() {
                k3 += 1;
            }
        }
    }
    (k2, k3)
}

/// Build the pinned scenario for `seed`: (fresh Delaunay triangulation, perturbed copy).
fn scenario(seed: u64) -> Option<(Dt3, Dt3)> {
    let mut rng = Lcg(seed.wrapping_mul(0x9E37_79B9_7F4A_7C15));
    let n = 12 + rng.below(20);
    let pts: Vec<Vertex<f64, (), 3>> = (0..n)
        .map(|_| vertex!([rng.unit() * 10.0, rng.unit() * 10.0, rng.unit() * 10.0]))
        .collect();
    let fresh: Dt3 = DelaunayTriangulation::new(&pts).ok()?;
    let mut perturbed = fresh.clone();
    let nflips = 3 + rng.below(300);
    let done = random_legal_flips(&mut perturbed, &mut rng, nflips);
    println!(
        "seed={seed}: {} vertices, {} cells, legal flips applied (2->3, 3->2) = {done:?}",
        fresh.number_of_vertices(),
        fresh.number_of_cells()
    );
    Some((fresh, perturbed))
}


#[test]
fn f4_failed_repair_leaves_triangulation_unchanged() {
    let mut failures_seen = 0;
    for seed in [7_u64, 57] {
        let Some((_fresh, mut perturbed)) = scenario(seed) else { continue };
        let cells_before = cell_set(&perturbed);
        let verts_before = vertex_set(&perturbed);
        let n_before = perturbed.number_of_cells();
        match perturbed.repair_delaunay_with_flips() {
            Ok(_) => {}
            Err(e) => {
                failures_seen += 1;
                assert_eq!(verts_before, vertex_set(&perturbed), "seed {seed}: vertex set changed by a failed repair ({e})");
                assert_eq!(n_before, perturbed.number_of_cells(), "seed {seed}: cell count changed by a failed repair ({e})");
                assert!(cells_before == cell_set(&perturbed), "seed {seed}: cell set changed by a failed repair ({e})");
            }
        }
    }
    assert!(failures_seen > 0, "scenario no longer produces a failing repair; pick other seeds");
}
