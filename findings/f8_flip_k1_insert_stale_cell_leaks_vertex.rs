//! F8 (C03): `flip_k1_insert` with a cell key that is not (or no longer) in the triangulation
//! returned Err(MissingCell) but left the new vertex behind (it was inserted before the flip
//! context was built).  Fails on the pinned tree, passes after the `fix:` commit.
use delaunay::prelude::triangulation::flips::*;
use delaunay::prelude::triangulation::*;

#[test]
fn f8_failed_flip_k1_insert_leaves_no_vertex_behind() {
    let vertices = vec![
        vertex!([0.0, 0.0]),
        vertex!([4.0, 0.0]),
        vertex!([4.0, 4.0]),
        vertex!([0.0, 4.0]),
    ];
    let mut dt: DelaunayTriangulation<_, (), (), 2> = DelaunayTriangulation::new(&vertices).unwrap();
    // a cell key that exists in a sibling triangulation but not in `dt`
    let mut other = dt.clone();
    for p in [[1.0, 0.5], [3.0, 2.5], [2.0, 3.5]] {
        other.insert(vertex!(p)).unwrap();
    }
    let foreign = other
        .cells()
        .map(|(k, _)| k)
        .find(|k| dt.tds().get_cell(*k).is_none())
        .expect("a key unknown to dt");
    let (v0, c0) = (dt.number_of_vertices(), dt.number_of_cells());
    let r = dt.flip_k1_insert(foreign, vertex!([1.0, 1.0]));
    assert!(r.is_err(), "flip with a foreign cell key must fail");
    assert_eq!(dt.number_of_cells(), c0);
    assert_eq!(dt.number_of_vertices(), v0, "the failed flip left its vertex in the triangulation");
    assert!(dt.validate().is_ok());
}
