//! Sequential stand-in for `arc_swap::ArcSwapOption` (see Cargo.toml).
use std::cell::RefCell;
use std::ops::Deref;
use std::sync::Arc;

/// Guard returned by `load`; derefs to the `Option<Arc<T>>` snapshot.
pub struct Guard<T>(Option<Arc<T>>);

impl<T> Deref for Guard<T> {
    type Target = Option<Arc<T>>;
    fn deref(&self) -> &Self::Target {
        &self.0
    }
}

/// Sequential `ArcSwapOption`.
pub struct ArcSwapOption<T>(RefCell<Option<Arc<T>>>);

// The real type is Sync; the crate under proof stores it in types that must be Sync.
// Kani is single-threaded, so this is never exercised concurrently.
unsafe impl<T: Send + Sync> Sync for ArcSwapOption<T> {}

impl<T> ArcSwapOption<T> {
    pub fn empty() -> Self {
        Self(RefCell::new(None))
    }
    pub fn new(v: Option<Arc<T>>) -> Self {
        Self(RefCell::new(v))
    }
    pub fn from_pointee<V: Into<Option<T>>>(v: V) -> Self {
        Self(RefCell::new(v.into().map(Arc::new)))
    }
    pub fn load(&self) -> Guard<T> {
        Guard(self.0.borrow().clone())
    }
    pub fn load_full(&self) -> Option<Arc<T>> {
        self.0.borrow().clone()
    }
    pub fn store(&self, v: Option<Arc<T>>) {
        *self.0.borrow_mut() = v;
    }
    pub fn swap(&self, v: Option<Arc<T>>) -> Option<Arc<T>> {
        self.0.replace(v)
    }
    /// Sequential read-copy-update: one application of `f`, returns the previous value.
    pub fn rcu<R, F>(&self, mut f: F) -> Option<Arc<T>>
    where
        F: FnMut(&Option<Arc<T>>) -> R,
        R: Into<Option<Arc<T>>>,
    {
        let old = self.0.borrow().clone();
        let new: Option<Arc<T>> = f(&old).into();
        *self.0.borrow_mut() = new;
        old
    }
}

impl<T> Default for ArcSwapOption<T> {
    fn default() -> Self {
        Self::empty()
    }
}

impl<T> std::fmt::Debug for ArcSwapOption<T> {
    fn fmt(&self, f: &mut std::fmt::Formatter<'_>) -> std::fmt::Result {
        f.write_str("ArcSwapOption(..)")
    }
}
