//! Verification stub for `tracing` (see Cargo.toml).  Macros swallow their arguments
//! without evaluating them; `Span::in_scope` just calls the closure.
#![no_std]

#[macro_export]
macro_rules! trace { ($($t:tt)*) => { () }; }
#[macro_export]
macro_rules! debug { ($($t:tt)*) => { () }; }
#[macro_export]
macro_rules! info { ($($t:tt)*) => { () }; }
#[macro_export]
macro_rules! warn { ($($t:tt)*) => { () }; }
#[macro_export]
macro_rules! error { ($($t:tt)*) => { () }; }
#[macro_export]
macro_rules! event { ($($t:tt)*) => { () }; }
#[macro_export]
macro_rules! enabled { ($($t:tt)*) => { false }; }

/// Inert span.
#[derive(Clone, Copy, Debug, Default)]
pub struct Span;

impl Span {
    #[inline]
    pub fn in_scope<F: FnOnce() -> T, T>(&self, f: F) -> T {
        f()
    }
    #[inline]
    pub const fn none() -> Self {
        Span
    }
    #[inline]
    pub fn entered(self) -> Self {
        self
    }
    #[inline]
    pub fn enter(&self) -> Self {
        Span
    }
}

#[macro_export]
macro_rules! span { ($($t:tt)*) => { $crate::Span }; }
#[macro_export]
macro_rules! trace_span { ($($t:tt)*) => { $crate::Span }; }
#[macro_export]
macro_rules! debug_span { ($($t:tt)*) => { $crate::Span }; }
#[macro_export]
macro_rules! info_span { ($($t:tt)*) => { $crate::Span }; }
#[macro_export]
macro_rules! warn_span { ($($t:tt)*) => { $crate::Span }; }
#[macro_export]
macro_rules! error_span { ($($t:tt)*) => { $crate::Span }; }

/// Level constants so `tracing::Level::X` still type-checks if used.
#[derive(Clone, Copy, Debug, PartialEq, Eq)]
pub struct Level(u8);
impl Level {
    pub const TRACE: Level = Level(0);
    pub const DEBUG: Level = Level(1);
    pub const INFO: Level = Level(2);
    pub const WARN: Level = Level(3);
    pub const ERROR: Level = Level(4);
}
