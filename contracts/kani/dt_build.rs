//! Contracts for the batch-construction retry wrapper of `src/core/delaunay_triangulation.rs`
//! (C01: a constructor returns Ok only for a candidate that passed the Delaunay gate).
use super::*;
use crate::core::triangulation_data_structure::TriangulationConstructionState;
use crate::core::util::delaunay_validation::DelaunayValidationError;
use core::sync::atomic::{AtomicBool, AtomicU64, Ordering as AOrd};
use slotmap::KeyData;

// write-only ghost state (see contracts/kani/flips.rs)
static BUILT: AtomicU64 = AtomicU64::new(0); // tag of the candidate most recently built
static GATE_OK_TAG: AtomicU64 = AtomicU64::new(u64::MAX); // tag of the candidate the gate accepted last
static GATE_CALLED: AtomicBool = AtomicBool::new(false);
static SHUFFLED: AtomicBool = AtomicBool::new(false);

fn tag_of<T, U: DataType, V: DataType, const D: usize>(t: &Tds<T, U, V, D>) -> u64 {
    match t.construction_state {
        TriangulationConstructionState::Incomplete(n) => n as u64,
        TriangulationConstructionState::Constructed => u64::MAX - 1,
    }
}

/// CONTRACT of the inner builder as far as the retry wrapper may rely on it: returns SOME
/// candidate triangulation (tagged by the perturbation seed it was built with).  The Err
/// outcomes are not exercised: the wrapper formats them with Display, which does not fit in CBMC.
fn stub_inner<K, U, V, const D: usize>(
    kernel: K, _v: &[Vertex<K::Scalar, U, D>], topology_guarantee: TopologyGuarantee, perturbation_seed: u64, _final_repair: bool, _g: Option<K::Scalar>,
) -> Result<DelaunayTriangulation<K, U, V, D>, DelaunayTriangulationConstructionError>
where K: Kernel<D>, K::Scalar: ScalarSummable, U: DataType, V: DataType {
    let mut tri = Triangulation::new_empty(kernel);
    tri.topology_guarantee = topology_guarantee;
    let mut dt = DelaunayTriangulation::<K, U, V, D> { tri, insertion_state: DelaunayInsertionState::new(), spatial_index: None };
    let t = (perturbation_seed % 1_000_003) as usize;
    dt.tri.tds.construction_state = TriangulationConstructionState::Incomplete(t);
    BUILT.store(t as u64, AOrd::Relaxed);
    Ok(dt)
}
/// CONTRACT of the brute-force Delaunay gate: pure, any verdict.
fn stub_gate<T, U, V, const D: usize>(tds: &Tds<T, U, V, D>) -> Result<(), DelaunayValidationError>
where T: ScalarAccumulative, U: DataType, V: DataType {
    GATE_CALLED.store(true, AOrd::Relaxed);
    if kani::any() {
        GATE_OK_TAG.store(tag_of(tds), AOrd::Relaxed);
        Ok(())
    } else {
        Err(DelaunayValidationError::DelaunayViolation { cell_key: CellKey::from(KeyData::from_ffi(0x1_0000_0001)) })
    }
}
fn stub_shuffle<K, U, V, const D: usize>(_v: &mut [Vertex<K::Scalar, U, D>], _seed: u64)
where K: Kernel<D>, U: DataType, V: DataType {
    SHUFFLED.store(true, AOrd::Relaxed);
}
fn stub_seed<K, U, V, const D: usize>(_v: &[Vertex<K::Scalar, U, D>]) -> u64
where K: Kernel<D>, U: DataType, V: DataType {
    kani::any()
}
fn stub_format(_a: core::fmt::Arguments<'_>) -> String {
    String::with_capacity(1)
}
fn stub_display(_e: &DelaunayTriangulationConstructionError, _f: &mut core::fmt::Formatter<'_>) -> core::fmt::Result {
    Ok(())
}
fn stub_display_v(_e: &DelaunayValidationError, _f: &mut core::fmt::Formatter<'_>) -> core::fmt::Result {
    Ok(())
}
fn stub_var_os<K: AsRef<std::ffi::OsStr>>(_k: K) -> Option<std::ffi::OsString> {
    None
}

#[kani::proof]
#[kani::unwind(5)]
#[kani::stub(DelaunayTriangulation::build_with_kernel_inner_seeded, stub_inner)]
#[kani::stub(crate::core::util::delaunay_validation::is_delaunay_property_only, stub_gate)]
#[kani::stub(DelaunayTriangulation::shuffle_vertices, stub_shuffle)]
#[kani::stub(DelaunayTriangulation::construction_shuffle_seed, stub_seed)]
#[kani::stub(alloc::fmt::format, stub_format)]
#[kani::stub(std::env::var_os, stub_var_os)]
#[kani::stub(<DelaunayTriangulationConstructionError as core::fmt::Display>::fmt, stub_display)]
#[kani::stub(<DelaunayValidationError as core::fmt::Display>::fmt, stub_display_v)]
fn construction_retry_gate_contract() {
    type Dt2 = DelaunayTriangulation<FastKernel<f64>, (), (), 2>;
    BUILT.store(0, AOrd::Relaxed);
    GATE_OK_TAG.store(u64::MAX, AOrd::Relaxed);
    GATE_CALLED.store(false, AOrd::Relaxed);
    SHUFFLED.store(false, AOrd::Relaxed);
    let kernel = FastKernel::<f64>::new();
    let vertices: [Vertex<f64, (), 2>; 0] = [];
    let attempts = core::num::NonZeroUsize::new(1).unwrap();
    let base_seed: Option<u64> = if kani::any() { Some(kani::any()) } else { None };
    let r = Dt2::build_with_shuffled_retries(&kernel, &vertices, TopologyGuarantee::PLManifold, attempts, base_seed, None);
    match &r {
        Ok(dt) => {
            assert!(GATE_CALLED.load(AOrd::Relaxed), "OBL gate-consulted: Ok is only returned after the Delaunay gate was consulted");
            assert!(GATE_OK_TAG.load(AOrd::Relaxed) == tag_of(&dt.tri.tds), "OBL ok-is-certified-candidate: the triangulation returned is exactly the candidate the Delaunay gate accepted");
            assert!(BUILT.load(AOrd::Relaxed) == tag_of(&dt.tri.tds), "OBL ok-is-last-built: ... and it is the candidate built last (no stale candidate is returned)");
        }
        Err(_) => {
            assert!(SHUFFLED.load(AOrd::Relaxed), "OBL retries-before-err: a rejected candidate leads to shuffled retries before the constructor gives up");
        }
    }
    kani::cover!(r.is_ok() && !SHUFFLED.load(AOrd::Relaxed), "COV first candidate accepted");
    kani::cover!(r.is_ok() && SHUFFLED.load(AOrd::Relaxed), "COV a retry accepted");
    kani::cover!(r.is_err(), "COV all candidates rejected");
    core::mem::forget(r);
}
