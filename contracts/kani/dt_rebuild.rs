//! C08: the heuristic-rebuild fallback of the advanced repair rebuilds from the SAME vertices
//! (UUID, coordinates and user data) - contract of `collect_vertices_for_rebuild`.
use super::*;
use crate::geometry::point::Point;
use crate::geometry::traits::coordinate::Coordinate as _;

#[kani::proof]
#[kani::unwind(5)]
fn rebuild_keeps_vertices_contract() {
    type DtU8 = DelaunayTriangulation<FastKernel<f64>, u8, (), 2>;
    let u1 = Uuid::from_u128(0x1111_2222_3333_4444_5555_6666_7777_8888);
    let u2 = Uuid::from_u128(0x9999_aaaa_bbbb_cccc_dddd_eeee_ffff_0001);
    let c: [f64; 4] = kani::any();
    let (d1, d2): (Option<u8>, Option<u8>) = (if kani::any() { Some(kani::any()) } else { None }, if kani::any() { Some(kani::any()) } else { None });
    let vs = [Vertex::<f64, u8, 2>::new_with_uuid(Point::new([c[0], c[1]]), u1, d1), Vertex::<f64, u8, 2>::new_with_uuid(Point::new([c[2], c[3]]), u2, d2)];
    let tds = crate::core::triangulation_data_structure::verif_kani_tds_helper::tds_with_vertices::<f64, u8, (), 2>(&vs);
    let mut tri = Triangulation::new_empty(FastKernel::<f64>::new());
    tri.tds = tds;
    let dt = DtU8 { tri, insertion_state: DelaunayInsertionState::new(), spatial_index: None };
    let out = dt.collect_vertices_for_rebuild();
    assert!(out.len() == 2, "OBL same-count: the rebuild input has one vertex per stored vertex");
    let mut i = 0;
    while i < 2 {
        let (u, d, x, y) = if out[i].uuid().as_u128() == u1.as_u128() { (u1, d1, c[0], c[1]) } else { (u2, d2, c[2], c[3]) };
        assert!(out[i].uuid().as_u128() == u.as_u128(), "OBL uuid-kept: every rebuilt vertex carries a stored UUID");
        assert!(out[i].data == d, "OBL data-kept: user data is carried over to the rebuilt triangulation");
        assert!(out[i].point().coords()[0].to_bits() == x.to_bits() && out[i].point().coords()[1].to_bits() == y.to_bits(), "OBL coords-kept: coordinates are bit-identical");
        i += 1;
    }
    assert!(out[0].uuid().as_u128() != out[1].uuid().as_u128(), "OBL no-duplication: no stored vertex appears twice");
    core::mem::forget(out);
    core::mem::forget(dt);
}
