//! K-slice of `Triangulation::remove_vertex` (fan path): the rollback protocol AROUND the
//! retriangulation closure.  The closure body (fan fill, wiring, cell removal, validation - storage
//! code that does not fit in CBMC) is abstracted to `region`, which may change the Tds arbitrarily
//! and report any outcome; the statements around it are verbatim.
use super::*;
use crate::core::triangulation_data_structure::{TdsMutationError, TriangulationConstructionState};
use crate::geometry::kernel::FastKernel;
use core::sync::atomic::{AtomicBool, Ordering as AOrd};

// write-only ghost state (see contracts/kani/flips.rs)
static REGION_OK: AtomicBool = AtomicBool::new(false);
static REGION_ERR: AtomicBool = AtomicBool::new(false);
const FAN_N: usize = 3;

/// CONTRACT of the abstracted region: changes the triangulation arbitrarily (states made here are
/// >= 2^32, entry states < 2^32), then reports Ok(FAN_N) or Err.
pub(crate) fn region<T, U: DataType, V: DataType, const D: usize>(tds: &mut Tds<T, U, V, D>) -> Result<usize, TdsMutationError> {
    tds.construction_state = TriangulationConstructionState::Incomplete((1usize << 32) + kani::any::<u32>() as usize);
    if kani::any() {
        REGION_ERR.store(true, AOrd::Relaxed);
        Err(TdsValidationError::InsufficientVertices {
            dimension: 3,
            source: crate::core::cell::CellValidationError::InvalidUuid { source: crate::core::util::UuidValidationError::NilUuid },
        }
        .into())
    } else {
        REGION_OK.store(true, AOrd::Relaxed);
        Ok(FAN_N)
    }
}
fn tag<T, U: DataType, V: DataType, const D: usize>(t: &Tds<T, U, V, D>) -> usize {
    match t.construction_state {
        TriangulationConstructionState::Incomplete(n) => n,
        TriangulationConstructionState::Constructed => usize::MAX,
    }
}

#[kani::proof]
#[kani::unwind(4)]
fn fan_restore_contract() {
    let mut tri = Triangulation::<FastKernel<f64>, (), (), 2>::new_empty(FastKernel::new());
    tri.tds.construction_state = TriangulationConstructionState::Incomplete(kani::any::<u32>() as usize);
    let tag0 = tag(&tri.tds);
    REGION_OK.store(false, AOrd::Relaxed);
    REGION_ERR.store(false, AOrd::Relaxed);
    let r = tri.verif_slice_fan_restore();
    kani::cover!(r.is_ok(), "COV retriangulation succeeded");
    kani::cover!(r.is_err(), "COV retriangulation failed");
    match &r {
        Ok(n) => assert!(*n == FAN_N && REGION_OK.load(AOrd::Relaxed), "OBL ok-count: Ok(n) is the retriangulation's own result"),
        Err(_) => {
            assert!(REGION_ERR.load(AOrd::Relaxed), "OBL err-from-region: Err only if the retriangulation failed");
            assert!(tag(&tri.tds) == tag0, "OBL err-restores: a failed retriangulation leaves the Tds exactly as it was before the destructive edits");
        }
    }
    core::mem::forget(r);
    core::mem::forget(tri);
}
