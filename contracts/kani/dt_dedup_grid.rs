//! Contracts for the hash-grid dedup helpers of `src/core/delaunay_triangulation.rs` (C17):
//! a vertex the grid cannot key must never be run through the grid path (the grid silently
//! switches itself off at such a vertex and every later vertex would be kept unchecked).
use super::*;
use crate::core::collections::spatial_hash_grid::HashGridIndex;
use crate::geometry::point::Point;
use crate::geometry::traits::coordinate::Coordinate as _;
use core::sync::atomic::{AtomicBool, Ordering as AOrd};

static FALLBACK: AtomicBool = AtomicBool::new(false);
static GRID_INSERTED: AtomicBool = AtomicBool::new(false);

/// grid insertion: only recorded (the grid's cells stay empty, so the REAL query finds no candidate;
/// what the grid path does with keyable vertices is not under this contract)
fn stub_insert<T: CoordinateScalar, const D: usize, K: Copy>(_g: &mut HashGridIndex<T, D, K>, _k: K, _coords: &[T; D]) {
    GRID_INSERTED.store(true, AOrd::Relaxed);
}
fn stub_clear<T: CoordinateScalar, const D: usize, K: Copy>(_g: &mut HashGridIndex<T, D, K>) {}
/// fallback paths (sorted exact dedup / quantised epsilon dedup): identity, recorded
fn stub_sorted<T, U, const D: usize>(vertices: Vec<Vertex<T, U, D>>) -> Vec<Vertex<T, U, D>>
where T: CoordinateScalar, U: DataType {
    FALLBACK.store(true, AOrd::Relaxed);
    vertices
}
fn stub_quantized<T, U, const D: usize>(vertices: Vec<Vertex<T, U, D>>, _eps: T) -> Vec<Vertex<T, U, D>>
where T: CoordinateScalar, U: DataType {
    FALLBACK.store(true, AOrd::Relaxed);
    vertices
}
fn stub_metrics(_a: bool, _b: usize, _c: bool) {}
fn vtx(x: f64, id: u8) -> Vertex<f64, u8, 2> {
    Vertex::new_with_uuid(Point::new([x, 0.5]), Uuid::nil(), Some(id))
}

macro_rules! grid_dedup_contract {
    ($name:ident, $call:expr) => {
        #[kani::proof]
        #[kani::unwind(4)]
        #[kani::stub(HashGridIndex::insert_vertex, stub_insert)]
        #[kani::stub(HashGridIndex::clear, stub_clear)]
        #[kani::stub(dedup_vertices_exact_sorted, stub_sorted)]
        #[kani::stub(dedup_vertices_epsilon_quantized, stub_quantized)]
        #[kani::stub(record_duplicate_detection_metrics, stub_metrics)]
        fn $name() {
            FALLBACK.store(false, AOrd::Relaxed);
            GRID_INSERTED.store(false, AOrd::Relaxed);
            let (x0, x1): (f64, f64) = (kani::any(), kani::any());
            kani::assume(x0.is_finite() && x1.is_finite());
            let cell: f64 = if kani::any() { 1.0 } else { f64::NAN }; // a usable and an unusable grid
            let mut grid: HashGridIndex<f64, 2, usize> = HashGridIndex::new(cell);
            let all_keyable = grid.is_usable() && grid.can_key_coords(&[x0, 0.5]) && grid.can_key_coords(&[x1, 0.5]); // the grid's own (real) keyability
            let input = vec![vtx(x0, 0), vtx(x1, 1)];
            let f: fn(Vec<Vertex<f64, u8, 2>>, &mut HashGridIndex<f64, 2, usize>) -> Vec<Vertex<f64, u8, 2>> = $call;
            let out = f(input, &mut grid);
            kani::cover!(all_keyable, "COV every vertex keyable");
            kani::cover!(grid.is_usable() && !all_keyable, "COV usable grid, unkeyable vertex");
            kani::cover!(!grid.is_usable(), "COV unusable grid");
            if !all_keyable {
                assert!(FALLBACK.load(AOrd::Relaxed), "OBL fallback-when-unkeyable: if the grid cannot key EVERY vertex the grid-free fallback decides");
                assert!(!GRID_INSERTED.load(AOrd::Relaxed), "OBL grid-untouched: ... and no vertex is filed in the grid");
                assert!(out.len() == 2, "OBL fallback-result: the fallback's result is returned as it is");
            } else {
                assert!(!FALLBACK.load(AOrd::Relaxed) && GRID_INSERTED.load(AOrd::Relaxed), "OBL grid-when-keyable: with every vertex keyable the grid path runs");
            }
            core::mem::forget(out);
            core::mem::forget(grid);
        }
    };
}
grid_dedup_contract!(exact_hash_grid_fallback_contract, |v, g| dedup_vertices_exact_hash_grid(v, g));
grid_dedup_contract!(epsilon_hash_grid_fallback_contract, |v, g| dedup_vertices_epsilon_hash_grid(v, 0.001, g));
