//! Contracts for the Level-4 verdict backbone in `src/core/algorithms/flips.rs`:
//! verify_repair_postcondition_locally runs all four flip-predicate verifiers.
use super::*;
use crate::geometry::kernel::FastKernel;
use core::sync::atomic::{AtomicBool, Ordering as AOrd};

// write-only ghost state: one "called" flag and one verdict bit per callee
static F_SEED: AtomicBool = AtomicBool::new(false);
static F_K2: AtomicBool = AtomicBool::new(false);
static F_K3: AtomicBool = AtomicBool::new(false);
static F_IK2: AtomicBool = AtomicBool::new(false);
static F_IK3: AtomicBool = AtomicBool::new(false);
static F_CONN: AtomicBool = AtomicBool::new(false);
static C_SEED: AtomicBool = AtomicBool::new(false);
static C_K2: AtomicBool = AtomicBool::new(false);
static C_K3: AtomicBool = AtomicBool::new(false);
static C_IK2: AtomicBool = AtomicBool::new(false);
static C_IK3: AtomicBool = AtomicBool::new(false);
static C_CONN: AtomicBool = AtomicBool::new(false);

fn rerr(code: usize) -> DelaunayRepairError { DelaunayRepairError::Flip(FlipError::UnsupportedDimension { dimension: code }) }

fn stub_seed<T, U, V, const D: usize>(_t: &Tds<T, U, V, D>, _s: Option<&[CellKey]>, _q: &mut RepairQueues, _st: &mut DelaunayRepairStats) -> Result<(), FlipError>
where T: CoordinateScalar, U: DataType, V: DataType {
    C_SEED.store(true, AOrd::Relaxed);
    if kani::any() { F_SEED.store(true, AOrd::Relaxed); Err(FlipError::UnsupportedDimension { dimension: 100 }) } else { Ok(()) }
}
macro_rules! verifier_stub {
    ($name:ident, $qty:ty, $flag:ident, $fail:ident, $bit:expr) => {
        fn $name<K, U, V, const D: usize>(_t: &Tds<K::Scalar, U, V, D>, _k: &K, _q: &mut VecDeque<($qty, u64)>, _c: &RepairAttemptConfig, _d: &mut RepairDiagnostics) -> Result<(), DelaunayRepairError>
        where K: Kernel<D>, K::Scalar: ScalarSummable, U: DataType, V: DataType {
            $flag.store(true, AOrd::Relaxed);
            if kani::any() { $fail.store(true, AOrd::Relaxed); Err(rerr(100 + $bit)) } else { Ok(()) }
        }
    };
}
verifier_stub!(stub_k2, FacetHandle, C_K2, F_K2, 1);
verifier_stub!(stub_k3, RidgeHandle, C_K3, F_K3, 2);
verifier_stub!(stub_ik2, EdgeKey, C_IK2, F_IK2, 3);
verifier_stub!(stub_ik3, TriangleHandle, C_IK3, F_IK3, 4);
fn stub_connected<T, U, V, const D: usize>(_t: &Tds<T, U, V, D>) -> bool
where U: DataType, V: DataType {
    C_CONN.store(true, AOrd::Relaxed);
    if kani::any() { F_CONN.store(true, AOrd::Relaxed); false } else { true }
}
fn stub_trace() -> bool { false }
fn stub_format(_a: core::fmt::Arguments<'_>) -> String { String::with_capacity(1) }

#[kani::proof]
#[kani::unwind(3)]
#[kani::stub(seed_repair_queues, stub_seed)]
#[kani::stub(verify_postcondition_k2_facets, stub_k2)]
#[kani::stub(verify_postcondition_k3_ridges, stub_k3)]
#[kani::stub(verify_postcondition_inverse_k2_edges, stub_ik2)]
#[kani::stub(verify_postcondition_inverse_k3_triangles, stub_ik3)]
#[kani::stub(Tds::is_connected, stub_connected)]
#[kani::stub(repair_trace_enabled, stub_trace)]
#[kani::stub(alloc::fmt::format, stub_format)]
fn local_postcondition_contract() {
    let tds: Tds<f64, (), (), 3> = Tds::empty();
    let kernel = FastKernel::<f64>::new();
    F_SEED.store(false, AOrd::Relaxed);
    F_K2.store(false, AOrd::Relaxed);
    F_K3.store(false, AOrd::Relaxed);
    F_IK2.store(false, AOrd::Relaxed);
    F_IK3.store(false, AOrd::Relaxed);
    F_CONN.store(false, AOrd::Relaxed);
    C_SEED.store(false, AOrd::Relaxed);
    C_K2.store(false, AOrd::Relaxed);
    C_K3.store(false, AOrd::Relaxed);
    C_IK2.store(false, AOrd::Relaxed);
    C_IK3.store(false, AOrd::Relaxed);
    C_CONN.store(false, AOrd::Relaxed);
    let r = verify_repair_postcondition_locally(&tds, &kernel, None);
    let any_failed = F_SEED.load(AOrd::Relaxed) || F_K2.load(AOrd::Relaxed) || F_K3.load(AOrd::Relaxed) || F_IK2.load(AOrd::Relaxed) || F_IK3.load(AOrd::Relaxed) || F_CONN.load(AOrd::Relaxed);
    let all_pass = !any_failed;
    assert!(r.is_ok() == all_pass, "OBL conjunction: the Delaunay verdict is Ok exactly when queue seeding, the k=2 facet check, the k=3 ridge check, both inverse checks and the connectivity check all pass");
    if all_pass {
        assert!(C_SEED.load(AOrd::Relaxed) && C_K2.load(AOrd::Relaxed) && C_K3.load(AOrd::Relaxed) && C_IK2.load(AOrd::Relaxed) && C_IK3.load(AOrd::Relaxed) && C_CONN.load(AOrd::Relaxed),
            "OBL all-consulted: an accepting verdict consulted every flip-predicate verifier");
    }
    kani::cover!(r.is_ok(), "COV accepted");
    kani::cover!(r.is_err() && F_CONN.load(AOrd::Relaxed), "COV only connectivity fails");
    kani::cover!(r.is_err() && F_IK3.load(AOrd::Relaxed), "COV the last verifier fails");
    core::mem::forget(r);
    core::mem::forget(tds);
}
