//! K-slice of `apply_bistellar_flip_with_k` (C07): the legality guard "the inserted simplex must
//! not already exist in the complex" - the `if k_move >= 2 && k_move < D && let Some(..) = .. {}`
//! statement, verbatim, with the helper `find_cell_containing_simplex` as REAL code, on a Tds that
//! stores one real cell.
use super::*;
use crate::core::collections::CellKeySet;
use crate::geometry::kernel::FastKernel;
use slotmap::KeyData;

fn vk(n: u64) -> VertexKey { VertexKey::from(KeyData::from_ffi(0x1_0000_0000 + n)) }
fn ck(n: u64) -> CellKey { CellKey::from(KeyData::from_ffi(0x1_0000_0000 + n)) }

/// CONTRACT of Tds::find_cells_containing_vertex_by_key for the Tds of this harness: the one
/// stored cell X (key ck(1)) is the only cell, and it contains vertices 1..=4.
fn stub_star<T, U, V, const D: usize>(_t: &Tds<T, U, V, D>, v: VertexKey) -> CellKeySet
where U: DataType, V: DataType {
    let mut s = CellKeySet::default();
    if v == vk(1) || v == vk(2) || v == vk(3) || v == vk(4) { s.insert(ck(1)); }
    s
}
fn stub_trace() -> bool { false }
fn stub_var_os<K: AsRef<std::ffi::OsStr>>(_k: K) -> Option<std::ffi::OsString> { None }
fn stub_format(_a: core::fmt::Arguments<'_>) -> String { String::with_capacity(1) }

type Tds3 = Tds<f64, (), (), 3>;

macro_rules! guard_instance {
    ($name:ident, $x_removed:expr) => {
        #[kani::proof]
        #[kani::unwind(18)]
        #[kani::stub(Tds::find_cells_containing_vertex_by_key, stub_star)]
        #[kani::stub(repair_trace_enabled, stub_trace)]
        #[kani::stub(std::env::var_os, stub_var_os)]
        #[kani::stub(alloc::fmt::format, stub_format)]
        fn $name() {
            let mut t = Tds3::empty();
            let x = crate::core::triangulation_data_structure::verif_kani_tds_helper::insert_cell_raw(&mut t, crate::core::cell::verif_kani_cell_helper::dummy_cell_with::<f64, (), (), 3>(&[vk(1), vk(2), vk(3), vk(4)]));
            assert!(x == ck(1), "OBL setup: the stored cell has the key the star contract names");
            // a k=2 move that would insert the edge {1,2}; its removed face {3,5,6} shares vertex 3 with X
            let inserted = [vk(1), vk(2)];
            let removed_face = [vk(3), vk(5), vk(6)];
            let mut removed_cells = CellKeyBuffer::new();
            removed_cells.push(if $x_removed { x } else { ck(8) });
            removed_cells.push(ck(9));
            let k_move: usize = kani::any();
            kani::assume(k_move >= 1 && k_move <= 4);
            let r = verif_slice_inserted_simplex_guard::<FastKernel<f64>, (), (), 3>(&t, k_move, &removed_face, &inserted, &removed_cells);
            kani::cover!(r.is_err(), "COV move refused");
            kani::cover!(r.is_ok(), "COV move allowed");
            if $x_removed {
                assert!(r.is_ok(), "OBL removed-cells-do-not-count: a cell that the move itself removes is no witness of a pre-existing simplex");
            } else {
                assert!(r.is_err() == (k_move >= 2 && k_move < 3),
                    "OBL existing-simplex-refused: for 2 <= k < D a move whose inserted simplex already lies in a cell that the move does not remove is refused - also when that cell shares a vertex with the removed face");
                if let Err(FlipError::InsertedSimplexAlreadyExists { existing_cell, .. }) = &r {
                    assert!(*existing_cell == x, "OBL witness: the reported cell is the one containing the simplex");
                }
            }
            core::mem::forget(r);
            core::mem::forget(removed_cells);
            core::mem::forget(t);
        }
    };
}
guard_instance!(inserted_simplex_guard_contract, false);
guard_instance!(inserted_simplex_guard_removed_contract, true);
