//! Contracts for `src/core/builder.rs`: canonicalize_vertices keeps identity and order.
use super::*;
use crate::geometry::point::Point;
use crate::geometry::traits::coordinate::Coordinate as _;
use crate::topology::traits::global_topology_model::{GlobalTopologyModel, GlobalTopologyModelError};
use crate::topology::traits::topological_space::TopologyKind;
use core::sync::atomic::{AtomicU64, Ordering as AOrd};

static CALLS: AtomicU64 = AtomicU64::new(0);
static FAIL_AT: AtomicU64 = AtomicU64::new(u64::MAX);

/// "any model": the CONTRACT of GlobalTopologyModel::canonicalize_point_in_place as far as
/// canonicalize_vertices may rely on it - rewrites the coordinates arbitrarily or refuses.
struct AnyModel<const D: usize> { domain: [f64; D] }
impl<const D: usize> GlobalTopologyModel<D> for AnyModel<D> {
    fn periodic_domain(&self) -> Option<&[f64; D]> { Some(&self.domain) }
    fn kind(&self) -> TopologyKind { TopologyKind::Toroidal }
    fn allows_boundary(&self) -> bool { false }
    fn canonicalize_point_in_place<T>(&self, coords: &mut [T; D]) -> Result<(), GlobalTopologyModelError>
    where T: CoordinateScalar {
        let n = CALLS.load(AOrd::Relaxed);
        CALLS.store(n + 1, AOrd::Relaxed);
        if n == FAIL_AT.load(AOrd::Relaxed) {
            return Err(GlobalTopologyModelError::NonFiniteCoordinate { axis: 0, value: 0.0 });
        }
        // tag the rewritten coordinate so the harness can recognise it: w = 1000 + call index
        coords[0] = <T as num_traits::NumCast>::from(1000.0 + n as f64).unwrap_or_else(T::zero);
        Ok(())
    }
    fn lift_for_orientation<T>(&self, coords: [T; D], _o: Option<[i8; D]>) -> Result<[T; D], GlobalTopologyModelError>
    where T: CoordinateScalar { Ok(coords) }
}
fn stub_format(_a: core::fmt::Arguments<'_>) -> String {
    String::with_capacity(1)
}

#[kani::proof]
#[kani::unwind(5)]
#[kani::stub(alloc::fmt::format, stub_format)]
fn canonicalize_vertices_contract() {
    // concrete, distinct UUIDs (identity is what matters; symbolic 128-bit values only cost time)
    let u1 = uuid::Uuid::from_u128(0x1111_2222_3333_4444_5555_6666_7777_8888);
    let u2 = uuid::Uuid::from_u128(0x9999_aaaa_bbbb_cccc_dddd_eeee_ffff_0001);
    let (d1, d2): (Option<u8>, Option<u8>) = (if kani::any() { Some(kani::any()) } else { None }, if kani::any() { Some(kani::any()) } else { None });
    let c: [f64; 4] = [kani::any(), 0.25, kani::any(), 0.75];
    let input = [
        Vertex::<f64, u8, 2>::new_with_uuid(Point::new([c[0], c[1]]), u1, d1),
        Vertex::<f64, u8, 2>::new_with_uuid(Point::new([c[2], c[3]]), u2, d2),
    ];
    CALLS.store(0, AOrd::Relaxed);
    let fail_at: u64 = kani::any();
    FAIL_AT.store(fail_at, AOrd::Relaxed);
    let r = DelaunayTriangulationBuilder::<f64, u8, 2>::canonicalize_vertices(&input, &AnyModel::<2> { domain: kani::any() });
    match &r {
        Ok(out) => {
            assert!(fail_at >= 2, "OBL err-propagates: a model error is never swallowed");
            assert!(out.len() == 2, "OBL same-length: one output vertex per input vertex");
            assert!(out[0].uuid().as_u128() == u1.as_u128() && out[1].uuid().as_u128() == u2.as_u128(), "OBL uuid-kept: UUIDs are kept, in order");
            assert!(out[0].data == d1 && out[1].data == d2, "OBL data-kept: user data is kept, in order");
            assert!(out[0].point().coords()[0] == 1000.0 && out[1].point().coords()[0] == 1001.0, "OBL coords-from-model: each vertex carries the coordinates its own canonicalisation produced");
            assert!(out[0].point().coords()[1].to_bits() == c[1].to_bits() && out[1].point().coords()[1].to_bits() == c[3].to_bits(), "OBL untouched-axes: coordinates the model left alone are bit-identical");
        }
        Err(_) => {
            assert!(fail_at < 2, "OBL err-only-from-model: Err only if the model refused a vertex");
            assert!(CALLS.load(AOrd::Relaxed) == fail_at + 1, "OBL first-error-stops: canonicalisation stops at the first refused vertex");
        }
    }
    kani::cover!(r.is_ok(), "COV ok");
    kani::cover!(r.is_err() && fail_at == 1, "COV second vertex refused");
    core::mem::forget(r);
}

// one-vertex instance (quick tier): identity kept, coordinates come from the model, errors propagate
#[kani::proof]
#[kani::unwind(4)]
#[kani::stub(alloc::fmt::format, stub_format)]
fn canonicalize_one_vertex_contract() {
    let u1 = uuid::Uuid::from_u128(0x1111_2222_3333_4444_5555_6666_7777_8888);
    let d1: Option<u8> = if kani::any() { Some(kani::any()) } else { None };
    let x: f64 = kani::any();
    let input = [Vertex::<f64, u8, 2>::new_with_uuid(Point::new([x, 0.25]), u1, d1)];
    CALLS.store(0, AOrd::Relaxed);
    let refuse: bool = kani::any();
    FAIL_AT.store(if refuse { 0 } else { u64::MAX }, AOrd::Relaxed);
    let r = DelaunayTriangulationBuilder::<f64, u8, 2>::canonicalize_vertices(&input, &AnyModel::<2> { domain: kani::any() });
    match &r {
        Ok(out) => {
            assert!(!refuse, "OBL err-propagates: a model error is never swallowed");
            assert!(out.len() == 1, "OBL same-length: one output vertex per input vertex");
            assert!(out[0].uuid().as_u128() == u1.as_u128() && out[0].data == d1, "OBL identity-kept: UUID and user data are kept");
            assert!(out[0].point().coords()[0] == 1000.0, "OBL coords-from-model: the vertex carries the coordinates its canonicalisation produced (every vertex goes through the model)");
            assert!(out[0].point().coords()[1] == 0.25, "OBL untouched-axes: coordinates the model left alone are unchanged");
        }
        Err(_) => assert!(refuse && CALLS.load(AOrd::Relaxed) == 1, "OBL err-only-from-model: Err only if the model refused the vertex"),
    }
    kani::cover!(r.is_ok(), "COV ok");
    kani::cover!(r.is_err(), "COV refused");
    core::mem::forget(r);
}

// quick-tier instance: the model never refuses (the Err plumbing is covered by the thorough units)
#[kani::proof]
#[kani::unwind(4)]
#[kani::stub(alloc::fmt::format, stub_format)]
fn canonicalize_one_vertex_ok_contract() {
    let u1 = uuid::Uuid::from_u128(0x1111_2222_3333_4444_5555_6666_7777_8888);
    let d1: Option<u8> = if kani::any() { Some(kani::any()) } else { None };
    let x: f64 = kani::any();
    let input = [Vertex::<f64, u8, 2>::new_with_uuid(Point::new([x, 0.25]), u1, d1)];
    CALLS.store(0, AOrd::Relaxed);
    FAIL_AT.store(u64::MAX, AOrd::Relaxed);
    let r = DelaunayTriangulationBuilder::<f64, u8, 2>::canonicalize_vertices(&input, &AnyModel::<2> { domain: kani::any() });
    match &r {
        Ok(out) => {
            assert!(out.len() == 1, "OBL same-length: one output vertex per input vertex");
            assert!(out[0].uuid().as_u128() == u1.as_u128() && out[0].data == d1, "OBL identity-kept: UUID and user data are kept");
            assert!(out[0].point().coords()[0] == 1000.0, "OBL coords-from-model: the vertex carries the coordinates its canonicalisation produced (every vertex goes through the model, whatever its position relative to the periodic domain)");
            assert!(out[0].point().coords()[1] == 0.25, "OBL untouched-axes: coordinates the model left alone are unchanged");
        }
        Err(_) => assert!(false, "OBL no-spurious-err: no Err when the model accepts the vertex"),
    }
    core::mem::forget(r);
}
