//! K-slices of `DelaunayTriangulation::build_with_shuffled_retries` (C01): the two acceptance
//! gates, i.e. the `match <gate>(candidate) { Ok(()) => return Ok(candidate), Err(err) => .. }`
//! expressions, verbatim, with the candidate as a parameter.  The whole wrapper does not fit in
//! CBMC (unit construct.retry_gate, manual); the decision "which check lets a candidate out" does.
use super::*;
use crate::core::util::delaunay_validation::DelaunayValidationError;
use core::sync::atomic::{AtomicBool, Ordering as AOrd};
use slotmap::KeyData;

// write-only ghost state (see contracts/kani/flips.rs)
static BRUTE_CALLED: AtomicBool = AtomicBool::new(false);
static BRUTE_OK: AtomicBool = AtomicBool::new(false);
static OTHER_CALLED: AtomicBool = AtomicBool::new(false);

/// CONTRACT of the brute-force empty-circumsphere check: pure, any verdict.
fn stub_brute<T, U, V, const D: usize>(_tds: &Tds<T, U, V, D>) -> Result<(), DelaunayValidationError>
where T: ScalarAccumulative, U: DataType, V: DataType {
    BRUTE_CALLED.store(true, AOrd::Relaxed);
    if kani::any() {
        BRUTE_OK.store(true, AOrd::Relaxed);
        Ok(())
    } else {
        Err(DelaunayValidationError::DelaunayViolation { cell_key: CellKey::from(KeyData::from_ffi(0x1_0000_0001)) })
    }
}
/// Every OTHER validator a gate could be rewritten to use (Level-4 flip-predicate verifier,
/// cumulative validate): pure, any verdict, independent of the brute-force verdict.
fn stub_is_valid<K, U, V, const D: usize>(_d: &DelaunayTriangulation<K, U, V, D>) -> Result<(), DelaunayTriangulationValidationError>
where K: Kernel<D>, U: DataType, V: DataType, K::Scalar: ScalarSummable {
    OTHER_CALLED.store(true, AOrd::Relaxed);
    if kani::any() { Ok(()) } else { Err(DelaunayTriangulationValidationError::DelaunayViolation { cell_key: CellKey::from(KeyData::from_ffi(0x1_0000_0001)), cell_uuid: Uuid::nil() }) }
}
fn stub_validate<K, U, V, const D: usize>(_d: &DelaunayTriangulation<K, U, V, D>) -> Result<(), DelaunayTriangulationValidationError>
where K: Kernel<D>, U: DataType, V: DataType, K::Scalar: CoordinateScalar {
    OTHER_CALLED.store(true, AOrd::Relaxed);
    if kani::any() { Ok(()) } else { Err(DelaunayTriangulationValidationError::DelaunayViolation { cell_key: CellKey::from(KeyData::from_ffi(0x1_0000_0001)), cell_uuid: Uuid::nil() }) }
}
fn stub_format(_a: core::fmt::Arguments<'_>) -> String {
    String::with_capacity(1)
}
fn stub_display_v(_e: &DelaunayValidationError, _f: &mut core::fmt::Formatter<'_>) -> core::fmt::Result {
    Ok(())
}
fn stub_display_t(_e: &DelaunayTriangulationValidationError, _f: &mut core::fmt::Formatter<'_>) -> core::fmt::Result {
    Ok(())
}

type Dt2 = DelaunayTriangulation<FastKernel<f64>, (), (), 2>;

macro_rules! gate_contract {
    ($name:ident, $call:expr) => {
        #[kani::proof]
        #[kani::unwind(4)]
        #[kani::stub(crate::core::util::delaunay_validation::is_delaunay_property_only, stub_brute)]
        #[kani::stub(DelaunayTriangulation::is_valid, stub_is_valid)]
        #[kani::stub(DelaunayTriangulation::validate, stub_validate)]
        #[kani::stub(alloc::fmt::format, stub_format)]
        #[kani::stub(<DelaunayValidationError as core::fmt::Display>::fmt, stub_display_v)]
        #[kani::stub(<DelaunayTriangulationValidationError as core::fmt::Display>::fmt, stub_display_t)]
        fn $name() {
            BRUTE_CALLED.store(false, AOrd::Relaxed);
            BRUTE_OK.store(false, AOrd::Relaxed);
            OTHER_CALLED.store(false, AOrd::Relaxed);
            let candidate = Dt2::empty();
            let f: fn(Dt2) -> bool = $call;
            let accepted = f(candidate);
            kani::cover!(accepted, "COV candidate accepted");
            kani::cover!(!accepted, "COV candidate rejected");
            assert!(BRUTE_CALLED.load(AOrd::Relaxed), "OBL gate-consulted: the brute-force empty-circumsphere check is consulted for every candidate");
            assert!(accepted == BRUTE_OK.load(AOrd::Relaxed), "OBL ok-iff-certified: the candidate is returned iff the brute-force check accepted it");
        }
    };
}
fn keep<T>(r: T) { core::mem::forget(r) }
gate_contract!(first_gate_contract, |c| { let r = Dt2::verif_slice_gate_first(c); let a = r.is_ok(); keep(r); a });
gate_contract!(retry_gate_contract, |c| { let r = Dt2::verif_slice_gate_retry(c); let a = r.is_ok(); keep(r); a });
// the statistics-returning twin (build_with_shuffled_retries_with_construction_statistics)
gate_contract!(first_gate_stats_contract, |c| { let r = Dt2::verif_slice_gate_first_stats(c, ConstructionStatistics::default()); let a = r.is_ok(); keep(r); a });
gate_contract!(retry_gate_stats_contract, |c| { let r = Dt2::verif_slice_gate_retry_stats(c, ConstructionStatistics::default()); let a = r.is_ok(); keep(r); a });
