//! K-slice of `Triangulation::insert_transactional` (C02 / C03): one attempt of the retry loop -
//! everything after the duplicate-coordinate check: snapshot, the attempt itself (callee contract:
//! changes the Tds arbitrarily, then reports an outcome), and the handling of each outcome class.
//! One harness instance per outcome class (concrete error variant: the drop / clone glue of a
//! symbolic InsertionError does not fit in CBMC).
use super::*;
use crate::core::triangulation_data_structure::{EntityKind, TriangulationConstructionState};
use crate::geometry::kernel::FastKernel;
use crate::geometry::point::Point;
use crate::geometry::traits::coordinate::Coordinate as _;
use core::sync::atomic::{AtomicBool, Ordering as AOrd};
use slotmap::KeyData;

static ATTEMPTED: AtomicBool = AtomicBool::new(false); // write-only in the stubs
pub(crate) const FELL_THROUGH: u64 = 0xFA11_7480; // marker: the slice reached the end of the loop body (next attempt)

fn havoc<K: Kernel<D>, U: DataType, V: DataType, const D: usize>(t: &mut Triangulation<K, U, V, D>) {
    ATTEMPTED.store(true, AOrd::Relaxed);
    t.tds.construction_state = TriangulationConstructionState::Incomplete((1usize << 32) + kani::any::<u32>() as usize);
}
fn tag<T, U: DataType, V: DataType, const D: usize>(t: &Tds<T, U, V, D>) -> usize {
    match t.construction_state {
        TriangulationConstructionState::Incomplete(n) => n,
        TriangulationConstructionState::Constructed => usize::MAX,
    }
}
macro_rules! attempt_stub {
    ($name:ident, $out:expr) => {
        /// CONTRACT of try_insert_with_topology_safety_net: edits the Tds in any way, then reports this outcome
        fn $name<K, U, V, const D: usize>(
            t: &mut Triangulation<K, U, V, D>, _v: Vertex<K::Scalar, U, D>, _c: Option<&CellKeyBuffer>, _h: Option<CellKey>, _a: usize, _s: &Tds<K::Scalar, U, V, D>,
        ) -> Result<TryInsertImplOk, InsertionError>
        where K: Kernel<D>, U: DataType, V: DataType, K::Scalar: CoordinateScalar {
            havoc(t);
            $out
        }
    };
}
attempt_stub!(attempt_ok, Ok(((VertexKey::from(KeyData::from_ffi(0x1_0000_0003)), None), 2, SuspicionFlags::default())));
attempt_stub!(attempt_dup, Err(InsertionError::DuplicateCoordinates { coordinates: String::with_capacity(1) }));
attempt_stub!(attempt_degenerate, Err(InsertionError::NonManifoldTopology { facet_hash: 7, cell_count: 3 }));
attempt_stub!(attempt_structural, Err(InsertionError::DuplicateUuid { entity: EntityKind::Vertex, uuid: Uuid::nil() }));
fn stub_format(_a: core::fmt::Arguments<'_>) -> String { String::with_capacity(1) }

type Tri2 = Triangulation<FastKernel<f64>, (), (), 2>;
#[derive(PartialEq, Clone, Copy)]
enum Class { Ok, Dup, Degenerate, Structural }

macro_rules! txn_instance {
    ($name:ident, $stub:path, $class:expr) => {
        #[kani::proof]
        #[kani::unwind(4)]
        #[kani::stub(Triangulation::try_insert_with_topology_safety_net, $stub)]
        #[kani::stub(alloc::fmt::format, stub_format)]
        fn $name() {
            let class: Class = $class;
            let mut tri = Tri2::new_empty(FastKernel::new());
            tri.tds.construction_state = TriangulationConstructionState::Incomplete(kani::any::<u32>() as usize);
            let tag0 = tag(&tri.tds);
            ATTEMPTED.store(false, AOrd::Relaxed);
            let v: Vertex<f64, (), 2> = Vertex::new_with_uuid(Point::new([0.25, 0.5]), Uuid::nil(), None);
            let attempt: usize = kani::any();
            let max_attempts: usize = kani::any();
            kani::assume(attempt <= max_attempts && max_attempts <= 8);
            let r = tri.verif_slice_txn_attempt(v, None, None, attempt, max_attempts, InsertionStatistics::default(), None, None);
            let fell_through = matches!(&r, Err(InsertionError::NonManifoldTopology { facet_hash, .. }) if *facet_hash == FELL_THROUGH);
            kani::cover!(fell_through, "COV next attempt");
            kani::cover!(!fell_through, "COV returned");
            assert!(ATTEMPTED.load(AOrd::Relaxed), "OBL attempted: the attempt runs (after the snapshot was taken)");
            match class {
                Class::Ok => {
                    assert!(matches!(&r, Ok((InsertionOutcome::Inserted { .. }, s)) if s.cells_removed_during_repair == 2), "OBL ok-inserted: a successful attempt is reported as Inserted with the attempt's statistics");
                }
                Class::Dup => {
                    assert!(matches!(&r, Ok((InsertionOutcome::Skipped { error: InsertionError::DuplicateCoordinates { .. } }, _))), "OBL dup-skipped: duplicate coordinates => Skipped, no retry");
                    assert!(tag(&tri.tds) == tag0, "OBL failed-attempt-restores: whatever a failed attempt did to the Tds, the snapshot is restored before the vertex is skipped, retried or refused");
                }
                Class::Degenerate => {
                    assert!(fell_through == (attempt < max_attempts), "OBL retry-while-budget: a retryable failure leads to another attempt iff attempts remain");
                    assert!(fell_through || matches!(&r, Ok((InsertionOutcome::Skipped { .. }, _))), "OBL degenerate-skipped: ... otherwise the vertex is skipped");
                    assert!(tag(&tri.tds) == tag0, "OBL failed-attempt-restores: whatever a failed attempt did to the Tds, the snapshot is restored before the vertex is skipped, retried or refused");
                }
                Class::Structural => {
                    assert!(matches!(&r, Err(InsertionError::DuplicateUuid { .. })), "OBL structural-err: a non-retryable failure is returned as Err");
                    assert!(tag(&tri.tds) == tag0, "OBL failed-attempt-restores: whatever a failed attempt did to the Tds, the snapshot is restored before the vertex is skipped, retried or refused");
                }
            }
            core::mem::forget(r);
            core::mem::forget(tri);
        }
    };
}
txn_instance!(txn_attempt_ok, attempt_ok, Class::Ok);
txn_instance!(txn_attempt_dup, attempt_dup, Class::Dup);
txn_instance!(txn_attempt_degenerate, attempt_degenerate, Class::Degenerate);
txn_instance!(txn_attempt_structural, attempt_structural, Class::Structural);
