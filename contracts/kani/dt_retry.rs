//! K-slices of the two shuffled-retry constructors (C14): `build_with_shuffled_retries` and its
//! statistics-returning twin must run the SAME schedule of (shuffle seed, perturbation seed) for
//! the same options - otherwise the same vertices and options give different cells depending on
//! which constructor was called.  The whole function bodies are taken verbatim; the arms of the
//! `match <inner builder>(..) { .. }` expressions (candidate handling: storage code, error
//! formatting) are abstracted regions, the inner builders are stubs that record their seed.
use super::*;
use core::sync::atomic::{AtomicU64, AtomicUsize, Ordering as AOrd};
use crate::geometry::traits::coordinate::Coordinate as _;
use crate::geometry::kernel::FastKernel;

// write-only ghost state (no read-modify-write, no symbolic index: see contracts/kani/flips.rs):
// one slot per (constructor, attempt number), written by the hooks that stand for the abstracted regions
static WHICH: AtomicUsize = AtomicUsize::new(0); // 0: plain constructor runs, 1: statistics twin runs (written by the harness only)
macro_rules! slots { ($($n:ident),*) => { $(static $n: AtomicU64 = AtomicU64::new(u64::MAX - 7);)* } }
slots!(A0_HIT, A1_SHUF, A1_PERT, A2_SHUF, A2_PERT, A_OTHER, B0_HIT, B1_SHUF, B1_PERT, B2_SHUF, B2_PERT, B_OTHER);
const UNSET: u64 = u64::MAX - 7;

/// stands for the arms of the unshuffled attempt's `match`: the candidate is rejected
pub(crate) fn hook_first() -> String {
    if WHICH.load(AOrd::Relaxed) == 0 { A0_HIT.store(1, AOrd::Relaxed) } else { B0_HIT.store(1, AOrd::Relaxed) }
    String::with_capacity(1)
}
/// stands for the arms of a shuffled retry's `match`: records the attempt's seeds, candidate rejected
pub(crate) fn hook_retry(attempt: usize, attempt_seed: u64, perturbation_seed: u64) {
    let a = WHICH.load(AOrd::Relaxed) == 0;
    match attempt {
        1 => { if a { A1_SHUF.store(attempt_seed, AOrd::Relaxed); A1_PERT.store(perturbation_seed, AOrd::Relaxed) } else { B1_SHUF.store(attempt_seed, AOrd::Relaxed); B1_PERT.store(perturbation_seed, AOrd::Relaxed) } }
        2 => { if a { A2_SHUF.store(attempt_seed, AOrd::Relaxed); A2_PERT.store(perturbation_seed, AOrd::Relaxed) } else { B2_SHUF.store(attempt_seed, AOrd::Relaxed); B2_PERT.store(perturbation_seed, AOrd::Relaxed) } }
        _ => { if a { A_OTHER.store(attempt as u64, AOrd::Relaxed) } else { B_OTHER.store(attempt as u64, AOrd::Relaxed) } }
    }
}
/// CONTRACT of the inner builders as far as the schedule is concerned: a function of their arguments
fn stub_inner<K, U, V, const D: usize>(
    _k: K, _v: &[Vertex<K::Scalar, U, D>], _t: TopologyGuarantee, _perturbation_seed: u64, _f: bool, _g: Option<K::Scalar>,
) -> Result<DelaunayTriangulation<K, U, V, D>, DelaunayTriangulationConstructionError>
where K: Kernel<D>, K::Scalar: ScalarSummable, U: DataType, V: DataType {
    Err(TriangulationConstructionError::FailedToAddVertex { message: String::with_capacity(1) }.into())
}
fn stub_inner_stats<K, U, V, const D: usize>(
    _k: K, _v: &[Vertex<K::Scalar, U, D>], _t: TopologyGuarantee, _perturbation_seed: u64, _f: bool, _g: Option<K::Scalar>,
) -> Result<(DelaunayTriangulation<K, U, V, D>, ConstructionStatistics), DelaunayTriangulationConstructionErrorWithStatistics>
where K: Kernel<D>, K::Scalar: ScalarSummable, U: DataType, V: DataType {
    Err(DelaunayTriangulationConstructionErrorWithStatistics {
        error: TriangulationConstructionError::FailedToAddVertex { message: String::with_capacity(1) }.into(),
        statistics: ConstructionStatistics::default(),
    })
}
fn stub_shuffle<K, U, V, const D: usize>(_v: &mut [Vertex<K::Scalar, U, D>], _seed: u64)
where K: Kernel<D>, U: DataType, V: DataType {}
fn stub_seed<K, U, V, const D: usize>(_v: &[Vertex<K::Scalar, U, D>]) -> u64
where K: Kernel<D>, U: DataType, V: DataType { 0x5EED }
fn stub_format(_a: core::fmt::Arguments<'_>) -> String { String::with_capacity(1) }
fn stub_var_os<K: AsRef<std::ffi::OsStr>>(_k: K) -> Option<std::ffi::OsString> { None }

#[kani::proof]
#[kani::unwind(5)]
#[kani::stub(DelaunayTriangulation::build_with_kernel_inner_seeded, stub_inner)]
#[kani::stub(DelaunayTriangulation::build_with_kernel_inner_seeded_with_construction_statistics, stub_inner_stats)]
#[kani::stub(DelaunayTriangulation::shuffle_vertices, stub_shuffle)]
#[kani::stub(DelaunayTriangulation::construction_shuffle_seed, stub_seed)]
#[kani::stub(alloc::fmt::format, stub_format)]
#[kani::stub(std::env::var_os, stub_var_os)]
fn retry_schedules_agree_contract() {
    type Dt2 = DelaunayTriangulation<FastKernel<f64>, (), (), 2>;
    let kernel = FastKernel::<f64>::new();
    // one vertex (an empty slice makes `to_vec()` an empty Vec, whose drop trips a spurious __rust_dealloc check in kani 0.68)
    let vertices: [Vertex<f64, (), 2>; 1] = [Vertex::new_with_uuid(crate::geometry::point::Point::new([0.0, 0.0]), Uuid::nil(), None)];
    let attempts = core::num::NonZeroUsize::new(2).unwrap();
    let base_seed: Option<u64> = if kani::any() { Some(kani::any()) } else { None };
    WHICH.store(0, AOrd::Relaxed);
    let r1 = Dt2::verif_slice_retry_schedule_plain(&kernel, &vertices, TopologyGuarantee::PLManifold, attempts, base_seed, None);
    WHICH.store(1, AOrd::Relaxed);
    let r2 = Dt2::verif_slice_retry_schedule_stats(&kernel, &vertices, TopologyGuarantee::PLManifold, attempts, base_seed, None);
    kani::cover!(r1.is_err() && r2.is_err(), "COV both constructors exhausted their retries");
    kani::cover!(base_seed.is_none(), "COV derived base seed");
    let g = |x: &AtomicU64| x.load(AOrd::Relaxed);
    kani::cover!(g(&A1_SHUF) != UNSET && g(&A2_SHUF) != UNSET, "COV two shuffled retries ran");
    assert!(g(&A0_HIT) == 1 && g(&B0_HIT) == 1, "OBL unshuffled-first: both constructors start with the unshuffled attempt");
    assert!(g(&A_OTHER) == g(&B_OTHER) && (g(&A1_SHUF) == UNSET) == (g(&B1_SHUF) == UNSET) && (g(&A2_SHUF) == UNSET) == (g(&B2_SHUF) == UNSET),
        "OBL same-attempt-numbers: both constructors run the same retry attempt numbers");
    assert!(g(&A1_SHUF) == g(&B1_SHUF) && g(&A2_SHUF) == g(&B2_SHUF), "OBL same-shuffle-seeds: retry i of both constructors shuffles with the same seed");
    assert!(g(&A1_PERT) == g(&B1_PERT) && g(&A2_PERT) == g(&B2_PERT), "OBL same-perturbation-seeds: retry i of both constructors builds with the same perturbation seed");
    core::mem::forget(r1);
    core::mem::forget(r2);
}
