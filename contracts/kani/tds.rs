//! Contracts for `src/core/triangulation_data_structure.rs`.
use super::*;

include!("/verif/contracts/kani/common.rs");

type Tds2 = Tds<f64, (), (), 2>;

const C_VMAP: u64 = 1;
const C_CMAP: u64 = 2;
const C_CVK: u64 = 3;
const C_VINC: u64 = 4;
const C_DUP: u64 = 5;
const C_MAP: u64 = 6;
const C_FSH: u64 = 7;
const C_NBR: u64 = 8;
const C_ORI: u64 = 9;

fn tdserr(code: u64) -> TdsValidationError {
    TdsValidationError::InsufficientVertices {
        dimension: code as usize,
        source: crate::core::cell::CellValidationError::InvalidUuid { source: crate::core::util::UuidValidationError::NilUuid },
    }
}
fn err_code(e: &TdsValidationError) -> u64 {
    match e {
        TdsValidationError::InsufficientVertices { dimension, .. } => *dimension as u64,
        _ => 0,
    }
}

macro_rules! self_stub {
    ($name:ident, $code:expr) => {
        fn $name<T, U, V, const D: usize>(_t: &Tds<T, U, V, D>) -> Result<(), TdsValidationError>
        where U: DataType, V: DataType {
            vk_event($code);
            if vk_fails($code) { Err(tdserr($code)) } else { Ok(()) }
        }
    };
}
self_stub!(stub_vmap, C_VMAP);
self_stub!(stub_cmap, C_CMAP);
self_stub!(stub_cvk, C_CVK);
self_stub!(stub_vinc, C_VINC);
self_stub!(stub_dup, C_DUP);
self_stub!(stub_ori, C_ORI);
fn stub_map<T, U, V, const D: usize>(_t: &Tds<T, U, V, D>) -> Result<FacetToCellsMap, TdsValidationError>
where U: DataType, V: DataType {
    vk_event(C_MAP);
    if vk_fails(C_MAP) { Err(tdserr(C_MAP)) } else { Ok(FacetToCellsMap::default()) }
}
fn stub_fsh<T, U, V, const D: usize>(_m: &FacetToCellsMap) -> Result<(), TdsValidationError>
where U: DataType, V: DataType {
    vk_event(C_FSH);
    if vk_fails(C_FSH) { Err(tdserr(C_FSH)) } else { Ok(()) }
}
fn stub_nbr<T, U, V, const D: usize>(_t: &Tds<T, U, V, D>, _m: &FacetToCellsMap) -> Result<(), TdsValidationError>
where U: DataType, V: DataType {
    vk_event(C_NBR);
    if vk_fails(C_NBR) { Err(tdserr(C_NBR)) } else { Ok(()) }
}

// =========================================================================================
// C05: Tds::is_valid (Level 2) == conjunction of its nine structural invariants
// =========================================================================================
#[kani::proof]
#[kani::unwind(2)]
#[kani::stub(Tds::validate_vertex_mappings, stub_vmap)]
#[kani::stub(Tds::validate_cell_mappings, stub_cmap)]
#[kani::stub(Tds::validate_cell_vertex_keys, stub_cvk)]
#[kani::stub(Tds::validate_vertex_incidence, stub_vinc)]
#[kani::stub(Tds::validate_no_duplicate_cells, stub_dup)]
#[kani::stub(Tds::build_facet_to_cells_map, stub_map)]
#[kani::stub(Tds::validate_facet_sharing_with_facet_to_cells_map, stub_fsh)]
#[kani::stub(Tds::validate_neighbors_with_facet_to_cells_map, stub_nbr)]
#[kani::stub(Tds::validate_coherent_orientation, stub_ori)]
fn level2_conjunction_contract() {
    let t = Tds2::empty();
    let fail: u64 = kani::any();
    vk_reset(fail, 0);
    let r = t.is_valid();
    let all_pass = (fail & 0b11_1111_1110) == 0;
    assert!(r.is_ok() == all_pass,
        "OBL conjunction: Level 2 Ok <=> vertex mappings, cell mappings, cell vertex keys, vertex incidence, no duplicate cells, facet map, facet sharing, neighbour consistency and coherent orientation all pass");
    if all_pass {
        assert!(vk_ncalls() == 9 && vk_log() == 0x123456789, "OBL all-consulted: all nine invariants are consulted, mappings first");
    }
    if let Err(e) = &r {
        let c = err_code(e);
        assert!(c != 0 && (fail >> c) & 1 == 1, "OBL err-origin: the Err returned belongs to an invariant that failed");
        // fast-fail: nothing after the first failing invariant runs, and the mappings are checked before anything that assumes them
        assert!((vk_log() & 0xf) == c, "OBL fast-fail: validation stops at the first violated invariant");
    }
    kani::cover!(r.is_ok(), "COV valid");
    kani::cover!(matches!(&r, Err(e) if err_code(e) == C_ORI), "COV orientation is the only failure");
    core::mem::forget(r);
    core::mem::forget(t);
}

// =========================================================================================
// C11: the generation counter - strictly +1 per bump; only mutators bump
// =========================================================================================
#[kani::proof]
fn generation_contract() {
    let t = Tds2::empty();
    let g0: u64 = kani::any();
    kani::assume(g0 < u64::MAX - 4);
    t.generation.store(g0, Ordering::Relaxed);
    assert!(t.generation() == g0, "OBL read: generation() reads the counter");
    t.bump_generation();
    assert!(t.generation() == g0 + 1, "OBL bump: bump_generation adds exactly 1");
    t.mark_topology_modified();
    assert!(t.generation() == g0 + 2, "OBL mark: mark_topology_modified adds exactly 1");
    let _ = t.number_of_cells();
    let _ = t.number_of_vertices();
    assert!(t.generation() == g0 + 2, "OBL queries-pure: read-only queries leave the generation alone");
    core::mem::forget(t);
}

/// C11: a snapshot (`clone`) shares the generation counter with its original, so restoring a
/// snapshot after a failed operation does NOT rewind the generation: views created before the
/// failed operation still see that something happened.
#[kani::proof]
#[kani::unwind(4)]
fn clone_shares_generation_contract() {
    let mut t = Tds2::empty();
    let g0: u64 = kani::any();
    kani::assume(g0 < u64::MAX - 4);
    t.generation.store(g0, Ordering::Relaxed);
    let snapshot = t.clone();
    assert!(snapshot.generation() == g0, "OBL clone-reads-same: a clone starts at the original's generation");
    t.bump_generation(); // the failed operation's edits
    assert!(snapshot.generation() == g0 + 1, "OBL clone-shares-counter: a bump made through the original is visible through the snapshot");
    let old = core::mem::replace(&mut t, snapshot); // the rollback `self.tds = tds_snapshot`
    assert!(t.generation() == g0 + 1, "OBL rollback-keeps-bumps: restoring the snapshot does not rewind the generation");
    core::mem::forget(old);
    core::mem::forget(t);
}

// =========================================================================================
// C11: remove_cells_by_keys - whenever cells were removed the generation is bumped, so every
// dependent view (convex hull) sees the change; nothing removed => nothing bumped.
// =========================================================================================
use crate::core::collections::{FastHashMap, VertexKeySet};
use slotmap::KeyData;

const C_FRONTIER: u64 = 1;
const C_REMOVE: u64 = 2;
const C_REPAIR: u64 = 3;

fn stub_frontier<T, U, V, const D: usize>(
    _t: &mut Tds<T, U, V, D>, _keys: &[CellKey], _set: &CellKeySet,
) -> (VertexKeySet, FastHashMap<VertexKey, CellKey>)
where U: DataType, V: DataType {
    vk_event(C_FRONTIER);
    (VertexKeySet::default(), FastHashMap::default())
}
/// CONTRACT: removes those of the listed cells that exist and reports how many (any count <= len)
fn stub_remove<T, U, V, const D: usize>(_t: &mut Tds<T, U, V, D>, keys: &[CellKey]) -> usize
where U: DataType, V: DataType {
    vk_event(C_REMOVE);
    let n = VK_NCELLS.load(AOrd::Relaxed);
    if n <= keys.len() { n } else { keys.len() }
}
fn stub_repair_incident<T, U, V, const D: usize>(
    _t: &mut Tds<T, U, V, D>, _a: &VertexKeySet, _s: &CellKeySet, _c: &FastHashMap<VertexKey, CellKey>,
) where U: DataType, V: DataType {
    vk_event(C_REPAIR);
}

macro_rules! remove_cells_instance {
    ($name:ident, $nkeys:expr) => {
        #[kani::proof]
        #[kani::unwind(6)]
        #[kani::stub(Tds::collect_removal_frontier_and_clear_neighbor_back_references, stub_frontier)]
        #[kani::stub(Tds::remove_cells_and_update_uuid_mappings, stub_remove)]
        #[kani::stub(Tds::repair_incident_cells_after_cell_removal, stub_repair_incident)]
        fn $name() {
            let mut t = Tds2::empty();
            let g0: u64 = kani::any();
            kani::assume(g0 < u64::MAX - 2);
            t.generation.store(g0, Ordering::Relaxed);
            let removed: usize = kani::any();
            vk_reset(0, removed);
            let nkeys: usize = $nkeys; // concrete per instance (the key set is a real hash set)
            let keys = [CellKey::from(KeyData::from_ffi(0x1_0000_0001)), CellKey::from(KeyData::from_ffi(0x1_0000_0002))];
            let r = t.remove_cells_by_keys(&keys[..nkeys]);
            let expect = if removed <= nkeys { removed } else { nkeys };
            assert!(r == expect, "OBL count: reports the number of cells actually removed");
            if r > 0 {
                assert!(t.generation() == g0 + 1, "OBL bump-on-removal: whenever at least one cell was removed the generation is bumped (exactly once)");
                assert!(vk_called(C_REPAIR), "OBL incidence-repaired: incident-cell pointers are repaired after a removal");
            } else {
                assert!(t.generation() == g0, "OBL no-bump-without-change: nothing removed => generation unchanged");
            }
            kani::cover!(r == nkeys && nkeys > 0, "COV all listed cells removed");
            kani::cover!(r == 0, "COV stale keys only");
            core::mem::forget(t);
        }
    };
}
remove_cells_instance!(remove_cells_bumps_generation_k1, 1);
remove_cells_instance!(remove_cells_bumps_generation_k2, 2);
remove_cells_instance!(remove_cells_bumps_generation_k0, 0);

// remove_cell_by_key: removing a key that does not exist changes nothing and does not bump
#[kani::proof]
#[kani::unwind(6)]
fn remove_missing_cell_contract() {
    let mut t = Tds2::empty();
    let g0: u64 = kani::any();
    kani::assume(g0 < u64::MAX - 2);
    t.generation.store(g0, Ordering::Relaxed);
    let r = t.remove_cell_by_key(CellKey::from(KeyData::from_ffi(kani::any())));
    assert!(r.is_none() && t.generation() == g0, "OBL missing-noop: removing a cell key that is not present returns None and leaves the generation alone");
    core::mem::forget(r);
    core::mem::forget(t);
}

