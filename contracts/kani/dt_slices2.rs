//! Prefix K-slices of `DelaunayTriangulation::insert` / `insert_with_statistics`: everything the
//! function does up to and including `let snapshot = ..;` (see the overlay log).
use super::*;
use core::sync::atomic::{AtomicUsize, Ordering as AOrd};
static NCELLS: AtomicUsize = AtomicUsize::new(0);
static NVERTS: AtomicUsize = AtomicUsize::new(0);
fn stub_ncells<T, U, V, const D: usize>(_t: &Tds<T, U, V, D>) -> usize where U: DataType, V: DataType { let n: usize = kani::any(); NCELLS.store(n, AOrd::Relaxed); n }
fn stub_nverts<T, U, V, const D: usize>(_t: &Tds<T, U, V, D>) -> usize where U: DataType, V: DataType { let n: usize = kani::any(); kani::assume(n < usize::MAX); NVERTS.store(n, AOrd::Relaxed); n }

fn any_repair_policy() -> DelaunayRepairPolicy {
    match kani::any::<u8>() % 3 {
        0 => DelaunayRepairPolicy::Never,
        1 => DelaunayRepairPolicy::EveryInsertion,
        _ => { let n: usize = kani::any(); kani::assume(n >= 1 && n <= 16); DelaunayRepairPolicy::EveryN(core::num::NonZeroUsize::new(n).unwrap()) }
    }
}
fn any_check_policy() -> DelaunayCheckPolicy {
    if kani::any() { DelaunayCheckPolicy::EndOnly } else { let n: usize = kani::any(); kani::assume(n >= 1 && n <= 16); DelaunayCheckPolicy::EveryN(core::num::NonZeroUsize::new(n).unwrap()) }
}

// ---- prefix slice: everything `insert` does up to and including `let snapshot = ...;` -----------
// (robust against refactorings of HOW the decision is computed: helper functions included)
fn stub_seed_index<K, U, V, const D: usize>(_d: &mut DelaunayTriangulation<K, U, V, D>)
where K: Kernel<D>, U: DataType, V: DataType {}

macro_rules! snapshot_taken {
    ($name:ident, $slice:ident) => {
        #[kani::proof]
        #[kani::unwind(4)]
        #[kani::stub(Tds::number_of_cells, stub_ncells)]
        #[kani::stub(Tds::number_of_vertices, stub_nverts)]
        #[kani::stub(DelaunayTriangulation::ensure_spatial_index_seeded, stub_seed_index)]
        fn $name() {
            const D: usize = 2;
            let mut dt = DelaunayTriangulation::<FastKernel<f64>, (), (), D>::empty();
            let rp = any_repair_policy();
            let cp = any_check_policy();
            let count: usize = kani::any();
            kani::assume(count <= 1024);
            dt.insertion_state.delaunay_repair_policy = rp;
            dt.insertion_state.delaunay_check_policy = cp;
            dt.insertion_state.delaunay_repair_insertion_count = count;
            // the stubs choose the counts (fresh nondeterministic values) and record them; if a count is
            // never asked for, the recorded default applies: no cells / no vertices
            NCELLS.store(0, AOrd::Relaxed);
            NVERTS.store(0, AOrd::Relaxed);
            let snapshot_taken = dt.$slice();
            let (nc, nv) = (NCELLS.load(AOrd::Relaxed), NVERTS.load(AOrd::Relaxed));
            let next = count + 1;
            let cells_after = nc > 0 || nv + 1 > D;
            if cells_after && (rp.should_repair(next) || cp.should_check(next)) {
                assert!(snapshot_taken, "OBL snapshot-exists-when-poststep: before the insertion starts a rollback snapshot EXISTS whenever flip repair or the scheduled Delaunay check can run (and fail) for this insertion");
            }
            kani::cover!(snapshot_taken && matches!(rp, DelaunayRepairPolicy::Never), "COV snapshot only for the scheduled check");
            kani::cover!(!snapshot_taken, "COV no snapshot");
            core::mem::forget(dt);
        }
    };
}
snapshot_taken!(insert_snapshot_taken, verif_slice_insert_snapshot_taken);
snapshot_taken!(insert_stats_snapshot_taken, verif_slice_insert_stats_snapshot_taken);
