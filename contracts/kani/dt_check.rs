//! C02: the per-insertion Delaunay check (`maybe_check_after_insertion`): when it is due its
//! verdict decides the insertion.
use super::*;
use core::sync::atomic::{AtomicBool, Ordering as AOrd};
use slotmap::KeyData;

static L4_CALLED: AtomicBool = AtomicBool::new(false);
static L4_ERR: AtomicBool = AtomicBool::new(false);

fn stub_ncells_any<T, U, V, const D: usize>(_t: &Tds<T, U, V, D>) -> usize
where U: DataType, V: DataType {
    if kani::any() { 0 } else { 1 + (kani::any::<u8>() as usize) }
}
fn stub_is_valid<K, U, V, const D: usize>(_d: &DelaunayTriangulation<K, U, V, D>) -> Result<(), DelaunayTriangulationValidationError>
where K: Kernel<D>, U: DataType, V: DataType, K::Scalar: ScalarSummable {
    L4_CALLED.store(true, AOrd::Relaxed);
    if kani::any() {
        L4_ERR.store(true, AOrd::Relaxed);
        Err(DelaunayTriangulationValidationError::DelaunayViolation { cell_key: CellKey::from(KeyData::from_ffi(0x1_0000_0001)), cell_uuid: Uuid::nil() })
    } else {
        Ok(())
    }
}
fn stub_display(_e: &DelaunayTriangulationValidationError, _f: &mut core::fmt::Formatter<'_>) -> core::fmt::Result {
    Ok(())
}

#[kani::proof]
#[kani::unwind(4)]
#[kani::stub(Tds::number_of_cells, stub_ncells_any)]
#[kani::stub(DelaunayTriangulation::is_valid, stub_is_valid)]
#[kani::stub(<DelaunayTriangulationValidationError as core::fmt::Display>::fmt, stub_display)]
fn check_after_insertion_contract() {
    let mut dt = DelaunayTriangulation::<FastKernel<f64>, (), (), 2>::empty();
    let every_n: bool = kani::any();
    let n: usize = kani::any();
    kani::assume(n >= 1 && n <= 16);
    let count: usize = kani::any();
    kani::assume(count <= 1024);
    dt.insertion_state.delaunay_check_policy = if every_n { DelaunayCheckPolicy::EveryN(core::num::NonZeroUsize::new(n).unwrap()) } else { DelaunayCheckPolicy::EndOnly };
    dt.insertion_state.delaunay_repair_insertion_count = count;
    L4_CALLED.store(false, AOrd::Relaxed);
    L4_ERR.store(false, AOrd::Relaxed);
    let r = dt.maybe_check_after_insertion();
    let due = every_n && count % n == 0;
    if L4_CALLED.load(AOrd::Relaxed) {
        assert!(due, "OBL check-only-when-due: the Delaunay level is evaluated only when the check policy says it is due");
        assert!(r.is_err() == L4_ERR.load(AOrd::Relaxed), "OBL check-verdict-decides: when the check runs, its verdict decides the insertion (a violation is an Err, never swallowed)");
    } else {
        assert!(r.is_ok(), "OBL no-check-ok: without a check the step succeeds");
    }
    kani::cover!(r.is_err(), "COV per-insertion check fails");
    kani::cover!(L4_CALLED.load(AOrd::Relaxed) && r.is_ok(), "COV per-insertion check passes");
    kani::cover!(due && !L4_CALLED.load(AOrd::Relaxed), "COV due but no cells yet");
    core::mem::forget(r);
    core::mem::forget(dt);
}
