//! K-slice of `Triangulation::remove_vertex` (fan path): everything the retriangulation closure
//! does after the star has been replaced by the fan - the validation / finalisation sequence whose
//! failure must surface as Err (so that the snapshot is restored).
use super::*;
use crate::core::collections::FacetIssuesMap;
use crate::core::triangulation_data_structure::TdsMutationError;
use crate::geometry::kernel::FastKernel;
use crate::geometry::point::Point;
use crate::geometry::traits::coordinate::Coordinate as _;
use core::sync::atomic::{AtomicBool, AtomicU64, Ordering as AOrd};

static FAILS: AtomicU64 = AtomicU64::new(0);
static C_DETECT: AtomicBool = AtomicBool::new(false);
static C_NORM: AtomicBool = AtomicBool::new(false);
static C_SIGN: AtomicBool = AtomicBool::new(false);
static C_ORIENT: AtomicBool = AtomicBool::new(false);
static C_INCID: AtomicBool = AtomicBool::new(false);
static C_RMV: AtomicBool = AtomicBool::new(false);
fn fails(b: u64) -> bool { (FAILS.load(AOrd::Relaxed) >> b) & 1 == 1 }
fn verr(code: usize) -> TdsValidationError {
    TdsValidationError::InsufficientVertices { dimension: code, source: crate::core::cell::CellValidationError::InvalidUuid { source: crate::core::util::UuidValidationError::NilUuid } }
}

fn stub_detect<K, U, V, const D: usize>(_t: &Triangulation<K, U, V, D>, _c: &[CellKey]) -> Result<Option<FacetIssuesMap>, TdsValidationError>
where K: Kernel<D>, U: DataType, V: DataType, K::Scalar: CoordinateScalar {
    C_DETECT.store(true, AOrd::Relaxed);
    if fails(0) { Err(verr(100)) } else { Ok(None) } // (the over-shared-facet repair branch is not exercised: its map is a hash map)
}
fn stub_norm<T, U, V, const D: usize>(_t: &mut Tds<T, U, V, D>) -> Result<(), TdsValidationError>
where U: DataType, V: DataType {
    C_NORM.store(true, AOrd::Relaxed);
    if fails(1) { Err(verr(101)) } else { Ok(()) }
}
fn stub_sign<K, U, V, const D: usize>(_t: &mut Triangulation<K, U, V, D>) -> Result<(), InsertionError>
where K: Kernel<D>, U: DataType, V: DataType, K::Scalar: CoordinateScalar {
    C_SIGN.store(true, AOrd::Relaxed);
    Ok(()) // its Err is an InsertionError, whose drop glue does not fit CBMC (OOM at 14 GB): failure of this step is not exercised
}
fn stub_orient<K, U, V, const D: usize>(_t: &Triangulation<K, U, V, D>) -> Result<(), TriangulationValidationError>
where K: Kernel<D>, U: DataType, V: DataType, K::Scalar: CoordinateScalar {
    C_ORIENT.store(true, AOrd::Relaxed);
    if fails(3) { Err(TriangulationValidationError::ManifoldFacetMultiplicity { facet_key: 103, cell_count: 0 }) } else { Ok(()) }
}
fn stub_incid<T, U, V, const D: usize>(_t: &mut Tds<T, U, V, D>) -> Result<(), TdsMutationError>
where U: DataType, V: DataType {
    C_INCID.store(true, AOrd::Relaxed);
    if fails(4) { Err(TdsMutationError(verr(104))) } else { Ok(()) }
}
fn stub_rmv<T, U, V, const D: usize>(_t: &mut Tds<T, U, V, D>, _v: &Vertex<T, U, D>) -> Result<usize, TdsMutationError>
where U: DataType, V: DataType {
    C_RMV.store(true, AOrd::Relaxed);
    if fails(5) { Err(TdsMutationError(verr(105))) } else { Ok(1) }
}
fn stub_format(_a: core::fmt::Arguments<'_>) -> String { String::with_capacity(1) }

#[kani::proof]
#[kani::unwind(4)]
#[kani::stub(Triangulation::detect_local_facet_issues, stub_detect)]
#[kani::stub(Tds::normalize_coherent_orientation, stub_norm)]
#[kani::stub(Triangulation::canonicalize_global_orientation_sign, stub_sign)]
#[kani::stub(Triangulation::validate_geometric_cell_orientation, stub_orient)]
#[kani::stub(Tds::assign_incident_cells, stub_incid)]
#[kani::stub(Tds::remove_vertex, stub_rmv)]
#[kani::stub(alloc::fmt::format, stub_format)]
fn fan_tail_contract() {
    let mut t = Triangulation::<FastKernel<f64>, (), (), 2>::new_empty(FastKernel::new());
    let f: u64 = kani::any();
    FAILS.store(f, AOrd::Relaxed);
    C_DETECT.store(false, AOrd::Relaxed);
    C_NORM.store(false, AOrd::Relaxed);
    C_SIGN.store(false, AOrd::Relaxed);
    C_ORIENT.store(false, AOrd::Relaxed);
    C_INCID.store(false, AOrd::Relaxed);
    C_RMV.store(false, AOrd::Relaxed);
    let removed: usize = kani::any();
    let v: Vertex<f64, (), 2> = Vertex::new_with_uuid(Point::new([0.0, 0.0]), uuid::Uuid::nil(), None);
    let r = t.verif_slice_fan_tail(removed, CellKeyBuffer::new(), &v);
    let all_pass = (f & 0b11_1011) == 0;
    assert!(r.is_ok() == all_pass, "OBL fan-finalisation-conjunction: the fan path reports success exactly when facet-issue detection, orientation normalisation, sign canonicalisation, the GLOBAL geometric-orientation validation, incidence rebuild and the vertex removal all succeed (any failure is an Err, which restores the snapshot)");
    if let Ok(n) = &r {
        assert!(*n == removed, "OBL fan-count: the reported count is the number of cells removed");
        assert!(C_DETECT.load(AOrd::Relaxed) && C_NORM.load(AOrd::Relaxed) && C_SIGN.load(AOrd::Relaxed) && C_ORIENT.load(AOrd::Relaxed) && C_INCID.load(AOrd::Relaxed) && C_RMV.load(AOrd::Relaxed),
            "OBL fan-all-consulted: success is only reported after every finalisation step ran - in particular the geometric-orientation validation of the WHOLE triangulation (flat and inverted cells rejected)");
    }
    kani::cover!(r.is_ok(), "COV fan succeeds");
    kani::cover!(r.is_err() && (f & 0b011) == 0 && (f & 0b1000) != 0, "COV orientation validation fails");
    core::mem::forget(r);
    core::mem::forget(t);
}
