//! Contracts for `src/topology/traits/global_topology_model.rs`.
use super::*;

/// ASSUMED CONTRACT of `f64::rem_euclid` (same text as contracts/kani/toroidal.rs).
pub(crate) fn rem_euclid_contract(x: f64, p: f64) -> f64 {
    if x.is_finite() && p.is_finite() && p > 0.0 {
        if x >= 0.0 && x < p {
            return x;
        }
        let r: f64 = kani::any();
        kani::assume(r >= 0.0 && r <= p);
        r
    } else {
        kani::any()
    }
}

macro_rules! canon_model_instance {
    ($name:ident, $d:expr, $t:ty) => {
        #[kani::proof]
        #[kani::unwind(5)]
        #[kani::stub(f64::rem_euclid, rem_euclid_contract)]
        fn $name() {
            const D: usize = $d;
            let domain: [f64; D] = kani::any();
            let mode = if kani::any() { ToroidalConstructionMode::Canonicalized } else { ToroidalConstructionMode::PeriodicImagePoint };
            let model = ToroidalModel::<D>::new(domain, mode);
            let mut c: [$t; D] = kani::any();
            let c0 = c;
            let r = GlobalTopologyModel::<D>::canonicalize_point_in_place(&model, &mut c);
            let mut periods_ok = true;
            let mut all_finite = true;
            let mut i = 0;
            while i < D {
                periods_ok = periods_ok && domain[i].is_finite() && domain[i] > 0.0;
                all_finite = all_finite && c0[i].is_finite();
                i += 1;
            }
            match r {
                Ok(()) => {
                    assert!(periods_ok && all_finite, "OBL ok-implies-valid: Ok only for finite coordinates and finite periods > 0");
                    let mut i = 0;
                    while i < D {
                        let w = c[i] as f64;
                        assert!(w >= 0.0 && w < domain[i], "OBL in-box: every coordinate ends in [0, period)");
                        let x = c0[i] as f64;
                        if x >= 0.0 && x < domain[i] {
                            assert!(c[i] == c0[i], "OBL inrange-unchanged: in-range coordinates are bit-identical");
                        }
                        i += 1;
                    }
                    // idempotence
                    let mut c2 = c;
                    let r2 = GlobalTopologyModel::<D>::canonicalize_point_in_place(&model, &mut c2);
                    assert!(r2.is_ok(), "OBL idempotent-ok: canonicalising a canonical point succeeds");
                    let mut i = 0;
                    while i < D {
                        assert!(c2[i] == c[i], "OBL idempotent: canonicalise(canonicalise(x)) == canonicalise(x)");
                        i += 1;
                    }
                }
                Err(_) => {
                    assert!(!(periods_ok && all_finite), "OBL err-implies-invalid: finite input with usable periods is never refused");
                    if !periods_ok {
                        let mut i = 0;
                        while i < D {
                            assert!(c[i].to_bits() == c0[i].to_bits(), "OBL badconfig-untouched: invalid configuration leaves the point untouched");
                            i += 1;
                        }
                    }
                }
            }
            core::mem::forget(r);
            kani::cover!(periods_ok && all_finite, "COV ok path");
            kani::cover!(periods_ok && !all_finite, "COV non-finite coordinate refused");
            kani::cover!(!periods_ok, "COV bad period refused");
        }
    };
}

canon_model_instance!(canon_model_d2_f64, 2, f64);
canon_model_instance!(canon_model_d3_f64, 3, f64);
canon_model_instance!(canon_model_d2_f32, 2, f32);
