// Shared ghost state for caller-against-callee-contract harnesses (included with include!).
//
// A stubbed callee *is* its contract: it records that it was called (LOG), and returns the
// verdict the harness chose nondeterministically for it (FAIL bit) - so a harness quantifies
// over every outcome of every callee.  Safe Rust only (the crate forbids unsafe code).
use core::sync::atomic::{AtomicU64, AtomicUsize, Ordering as AOrd};

pub(crate) static VK_FAIL: AtomicU64 = AtomicU64::new(0);
pub(crate) static VK_LOG: AtomicU64 = AtomicU64::new(0);
pub(crate) static VK_NCALLS: AtomicU64 = AtomicU64::new(0);
pub(crate) static VK_NCELLS: AtomicUsize = AtomicUsize::new(0);
pub(crate) static VK_AUX: AtomicU64 = AtomicU64::new(0);

/// record callee `code` (1..=15); the log keeps the last 16 calls, oldest in the high nibbles
pub(crate) fn vk_event(code: u64) {
    VK_LOG.store((VK_LOG.load(AOrd::Relaxed) << 4) | (code & 0xf), AOrd::Relaxed);
    VK_NCALLS.store(VK_NCALLS.load(AOrd::Relaxed) + 1, AOrd::Relaxed);
}
pub(crate) fn vk_fails(code: u64) -> bool {
    (VK_FAIL.load(AOrd::Relaxed) >> code) & 1 == 1
}
pub(crate) fn vk_log() -> u64 {
    VK_LOG.load(AOrd::Relaxed)
}
pub(crate) fn vk_ncalls() -> u64 {
    VK_NCALLS.load(AOrd::Relaxed)
}
/// was callee `code` called at all (among the last 16 calls)?
pub(crate) fn vk_called(code: u64) -> bool {
    let l = vk_log();
    let n = |k: u32| ((l >> (4 * k)) & 0xf) == code;
    // loop-free on purpose (harnesses run with a small global unwind bound)
    n(0) || n(1) || n(2) || n(3) || n(4) || n(5) || n(6) || n(7)
        || n(8) || n(9) || n(10) || n(11) || n(12) || n(13) || n(14) || n(15)
}
pub(crate) fn vk_reset(fail: u64, ncells: usize) {
    VK_FAIL.store(fail, AOrd::Relaxed);
    VK_LOG.store(0, AOrd::Relaxed);
    VK_NCALLS.store(0, AOrd::Relaxed);
    VK_NCELLS.store(ncells, AOrd::Relaxed);
}
