//! Contracts for `src/topology/spaces/toroidal.rs`.
use super::*;

/// ASSUMED CONTRACT of `f64::rem_euclid(x, p)` for finite x and finite p > 0
/// (IEEE-754 fmod is exact; rem_euclid adds p to a negative remainder and that addition
/// may round up to p itself - documented by std):  0 <= r <= p, and r == x when 0 <= x < p.
/// CBMC's own `%` on doubles is imprecise (spurious negative remainders), hence the stub.
pub(crate) fn rem_euclid_contract(x: f64, p: f64) -> f64 {
    if x.is_finite() && p.is_finite() && p > 0.0 {
        if x >= 0.0 && x < p {
            return x;
        }
        let r: f64 = kani::any();
        kani::assume(r >= 0.0 && r <= p);
        r
    } else {
        kani::any()
    }
}

macro_rules! wrap_coord_instance {
    ($name:ident, $d:expr) => {
        #[kani::proof]
        #[kani::stub(f64::rem_euclid, rem_euclid_contract)]
        fn $name() {
            const D: usize = $d;
            let domain: [f64; D] = kani::any();
            let space = ToroidalSpace::<D>::new(domain);
            let axis: usize = kani::any();
            let value: f64 = kani::any();
            let r = space.wrap_coord::<f64>(axis, value);
            let pre = axis < D && value.is_finite() && {
                let p = domain[if axis < D { axis } else { 0 }];
                p.is_finite() && p > 0.0
            };
            match r {
                Some(w) => {
                    assert!(pre, "OBL some-implies-valid: Some(w) only for axis < D, finite value, finite period > 0");
                    let p = domain[axis];
                    assert!(w >= 0.0, "OBL lower: 0 <= w");
                    assert!(w < p, "OBL upper: w < period (half-open fundamental box)");
                    if value >= 0.0 && value < p {
                        assert!(w == value, "OBL inrange-unchanged: a value already in [0, period) is returned unchanged");
                    }
                    // idempotence: wrapping the wrapped value gives the same value
                    let w2 = space.wrap_coord::<f64>(axis, w);
                    assert!(w2 == Some(w), "OBL idempotent: wrap(wrap(x)) == wrap(x)");
                }
                None => {
                    assert!(!pre, "OBL none-implies-invalid: None only when axis/value/period is unusable");
                }
            }
            kani::cover!(r.is_some(), "COV some");
            kani::cover!(r.is_none(), "COV none");
            kani::cover!(pre && value < 0.0, "COV negative value wrapped");
        }
    };
}

wrap_coord_instance!(wrap_coord_d2, 2);
wrap_coord_instance!(wrap_coord_d3, 3);

macro_rules! canon_space_instance {
    ($name:ident, $d:expr) => {
        #[kani::proof]
        #[kani::unwind(5)]
        #[kani::stub(f64::rem_euclid, rem_euclid_contract)]
        fn $name() {
            const D: usize = $d;
            let domain: [f64; D] = kani::any();
            let space = ToroidalSpace::<D>::new(domain);
            let mut c: [f64; D] = kani::any();
            let c0 = c;
            space.canonicalize_point(&mut c);
            let mut i = 0;
            while i < D {
                let p = domain[i];
                if p.is_finite() && p > 0.0 && c0[i].is_finite() {
                    assert!(c[i] >= 0.0 && c[i] < p, "OBL in-box: every finite coordinate on a usable axis ends in [0, period)");
                    if c0[i] >= 0.0 && c0[i] < p {
                        assert!(c[i] == c0[i], "OBL inrange-unchanged: in-range coordinates are not modified");
                    }
                }
                i += 1;
            }
            kani::cover!(D > 0 && c[0] != c0[0] && c0[0].is_finite(), "COV a coordinate was rewritten");
        }
    };
}

canon_space_instance!(canonicalize_point_d2, 2);
canon_space_instance!(canonicalize_point_d3, 3);
