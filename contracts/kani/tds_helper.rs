//! Helper attached to `src/core/triangulation_data_structure.rs`: a Tds holding given vertices in
//! its real vertex storage (slot-map insertion only; the UUID map is not filled).
use super::*;
pub(crate) fn tds_with_vertices<T, U: DataType, V: DataType, const D: usize>(vs: &[Vertex<T, U, D>]) -> Tds<T, U, V, D>
where T: Copy {
    let mut t: Tds<T, U, V, D> = Tds::empty();
    let mut i = 0;
    while i < vs.len() {
        t.vertices.insert(vs[i]);
        i += 1;
    }
    t
}
/// store a cell in the real cell storage (slot-map insertion only; no UUID map entry, no wiring)
pub(crate) fn insert_cell_raw<T, U: DataType, V: DataType, const D: usize>(t: &mut Tds<T, U, V, D>, c: Cell<T, U, V, D>) -> CellKey {
    t.cells.insert(c)
}
