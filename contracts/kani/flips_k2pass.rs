//! Contract for the k=2 facet pass of the Level-4 flip-predicate verifier
//! (`verify_postcondition_k2_facets`, C04): a facet whose k=2 predicate reports a violation and
//! whose flip is not degenerate makes the pass fail - whatever else is true of the complex.
use super::*;
use crate::geometry::kernel::FastKernel;
use core::sync::atomic::{AtomicBool, Ordering as AOrd};
use slotmap::KeyData;

// write-only ghost state
static VIOLATES: AtomicBool = AtomicBool::new(false); // the predicate said "violation"
static DEGENERATE: AtomicBool = AtomicBool::new(false); // the flip would create a degenerate cell
static INCONCLUSIVE: AtomicBool = AtomicBool::new(false); // a predicate was inconclusive / failed

fn ctx<const D: usize>() -> FlipContext<D, 2> {
    FlipContext { removed_face_vertices: SmallBuffer::new(), inserted_face_vertices: SmallBuffer::new(), removed_cells: CellKeyBuffer::new(), direction: FlipDirection::Forward }
}
fn stub_ctx<T, U, V, const D: usize>(_t: &Tds<T, U, V, D>, _f: FacetHandle) -> Result<FlipContext<D, 2>, FlipError>
where T: CoordinateScalar, U: DataType, V: DataType { Ok(ctx::<D>()) }
/// CONTRACT of is_delaunay_violation_k2 (formula proved by the V-slice violation_formula): any verdict
fn stub_violation<K, U, V, const D: usize>(_t: &Tds<K::Scalar, U, V, D>, _k: &K, _c: &FlipContext<D, 2>, _cfg: &RepairAttemptConfig, _d: &mut RepairDiagnostics) -> Result<bool, FlipError>
where K: Kernel<D>, K::Scalar: ScalarSummable, U: DataType, V: DataType {
    match kani::any::<u8>() % 3 {
        0 => { VIOLATES.store(true, AOrd::Relaxed); Ok(true) }
        1 => Ok(false),
        _ => { INCONCLUSIVE.store(true, AOrd::Relaxed); Err(FlipError::UnsupportedDimension { dimension: 77 }) }
    }
}
fn stub_degenerate<K, U, V, const D: usize>(_t: &Tds<K::Scalar, U, V, D>, _k: &K, _c: &FlipContext<D, 2>) -> Result<bool, FlipError>
where K: Kernel<D>, K::Scalar: ScalarSummable, U: DataType, V: DataType {
    if kani::any() { DEGENERATE.store(true, AOrd::Relaxed); Ok(true) } else { Ok(false) }
}
/// any other query a rewritten pass might consult about the complex: arbitrary answer
fn stub_find<T, U, V, const D: usize>(_t: &Tds<T, U, V, D>, _s: &[VertexKey], _r: &[CellKey]) -> Option<CellKey>
where T: CoordinateScalar, U: DataType, V: DataType {
    if kani::any() { Some(CellKey::from(KeyData::from_ffi(0x1_0000_0004))) } else { None }
}
fn stub_trace() -> bool { false }
fn stub_var_os<K: AsRef<std::ffi::OsStr>>(_k: K) -> Option<std::ffi::OsString> { None }
fn stub_format(_a: core::fmt::Arguments<'_>) -> String { String::with_capacity(1) }

#[kani::proof]
#[kani::unwind(4)]
#[kani::stub(build_k2_flip_context, stub_ctx)]
#[kani::stub(is_delaunay_violation_k2, stub_violation)]
#[kani::stub(k2_flip_would_create_degenerate_cell, stub_degenerate)]
#[kani::stub(find_cell_containing_simplex, stub_find)]
#[kani::stub(repair_trace_enabled, stub_trace)]
#[kani::stub(std::env::var_os, stub_var_os)]
#[kani::stub(alloc::fmt::format, stub_format)]
fn k2_pass_reports_violation_contract() {
    let tds: Tds<f64, (), (), 3> = Tds::empty();
    let kernel = FastKernel::<f64>::new();
    VIOLATES.store(false, AOrd::Relaxed);
    DEGENERATE.store(false, AOrd::Relaxed);
    INCONCLUSIVE.store(false, AOrd::Relaxed);
    let mut queue: VecDeque<(FacetHandle, u64)> = VecDeque::with_capacity(2);
    queue.push_back((FacetHandle::new(CellKey::from(KeyData::from_ffi(0x1_0000_0001)), 0), 1));
    let config = RepairAttemptConfig { attempt: 1, queue_order: if kani::any() { RepairQueueOrder::Fifo } else { RepairQueueOrder::Lifo }, use_robust_on_ambiguous: kani::any(), max_flips_override: None };
    let mut diagnostics = RepairDiagnostics::default();
    let r = verify_postcondition_k2_facets(&tds, &kernel, &mut queue, &config, &mut diagnostics);
    let f = |a: &AtomicBool| a.load(AOrd::Relaxed);
    kani::cover!(r.is_ok(), "COV pass accepts");
    kani::cover!(r.is_err() && f(&VIOLATES), "COV pass rejects a violation");
    if f(&VIOLATES) && !f(&DEGENERATE) {
        assert!(r.is_err(), "OBL violation-reported: a facet whose k=2 predicate reports a violation (and whose flip is not degenerate) makes the verifier fail, whatever else holds for the complex");
    }
    if !f(&VIOLATES) && !f(&INCONCLUSIVE) {
        assert!(r.is_ok(), "OBL no-spurious-failure: without a reported violation or predicate failure the pass accepts");
    }
    core::mem::forget(r);
    core::mem::forget(queue);
    core::mem::forget(diagnostics);
    core::mem::forget(tds);
}
