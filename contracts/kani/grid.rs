//! Contracts for `src/core/collections/spatial_hash_grid.rs` (duplicate-detection index).
use super::*;

macro_rules! grid_instance {
    ($name:ident, $d:expr) => {
        // C09 / C19: the index never silently mis-files a point: either the coordinates get a grid
        // key, or the whole index is switched to "unusable" (callers then fall back to the scan).
        #[kani::proof]
        #[kani::unwind(8)]
        fn $name() {
            const D: usize = $d;
            let cell: f64 = kani::any();
            let mut g: HashGridIndex<f64, D, usize> = HashGridIndex::new(cell);
            let usable0 = g.is_usable();
            assert!(usable0 == (D <= 5 && cell.is_finite() && cell > 0.0), "OBL usable-iff: a new index is usable exactly for D <= 5 and a finite cell size > 0");
            let c: [f64; D] = kani::any();
            let keyed = g.can_key_coords(&c);
            if keyed {
                assert!(usable0, "OBL key-needs-usable: only a usable index hands out keys");
                let mut i = 0;
                while i < D {
                    assert!(c[i].is_finite(), "OBL key-needs-finite: only finite coordinates get a key");
                    i += 1;
                }
            }
            if !usable0 {
                assert!(!keyed, "OBL unusable-no-key: an unusable index never hands out a key");
            }
            kani::cover!(usable0 && !keyed, "COV usable index refuses coordinates");
            kani::cover!(keyed, "COV keyed");
            core::mem::forget(g);
        }
    };
}
grid_instance!(grid_key_d2, 2);
grid_instance!(grid_key_d3, 3);

// inserting coordinates that cannot be keyed disables the index (so it is never trusted afterwards)
macro_rules! unkeyable {
    ($name:ident, $bad:expr) => {
        #[kani::proof]
        #[kani::unwind(8)]
        fn $name() {
            let cell: f64 = kani::any();
            kani::assume(cell.is_finite() && cell > 0.0);
            let mut g: HashGridIndex<f64, 2, usize> = HashGridIndex::new(cell);
            // coordinates without a grid key: a non-finite first coordinate (concrete, any second one)
            let c: [f64; 2] = [$bad, kani::any()];
            assert!(!g.can_key_coords(&c), "OBL nonfinite-no-key: non-finite coordinates never get a grid key");
            g.insert_vertex(0, &c);
            assert!(!g.is_usable(), "OBL unkeyable-disables: inserting coordinates without a grid key switches the index to unusable");
            let mut called = false;
            let used = g.for_each_candidate_vertex_key(&[0.0, 0.0], |_k| { called = true; true });
            assert!(!used && !called, "OBL unusable-reports-unused: an unusable index reports 'not used' so the caller scans all vertices");
            core::mem::forget(g);
        }
    };
}
unkeyable!(grid_insert_unkeyable_disables_contract, f64::NAN);
unkeyable!(grid_insert_unkeyable_inf_contract, f64::INFINITY);
