//! Contracts for `src/core/delaunay_triangulation.rs`: construction statistics (C01).
use super::*;
use crate::core::operations::{InsertionResult, InsertionStatistics};

// =========================================================================================
// C01: accounting - exactly one of inserted / skipped_duplicate / skipped_degeneracy grows
// =========================================================================================
fn any_result() -> InsertionResult {
    match kani::any::<u8>() % 3 {
        0 => InsertionResult::Inserted,
        1 => InsertionResult::SkippedDuplicate,
        _ => InsertionResult::SkippedDegeneracy,
    }
}

#[kani::proof]
#[kani::unwind(12)]
fn record_insertion_contract() {
    let mut cs = ConstructionStatistics::default();
    // real (empty) allocations instead of the const `Vec::new()` (kani 0.68 models it with capacity 1)
    cs.attempts_histogram = Vec::with_capacity(1);
    cs.skip_samples = Vec::with_capacity(1);
    cs.inserted = kani::any();
    cs.skipped_duplicate = kani::any();
    cs.skipped_degeneracy = kani::any();
    cs.total_attempts = kani::any();
    cs.max_attempts = kani::any();
    cs.used_perturbation = kani::any();
    cs.cells_removed_total = kani::any();
    cs.cells_removed_max = kani::any();
    // precondition: the three counters count distinct input vertices of one slice, so their sum fits (<= isize::MAX elements)
    kani::assume(cs.inserted <= (isize::MAX as usize) / 4 && cs.skipped_duplicate <= (isize::MAX as usize) / 4 && cs.skipped_degeneracy <= (isize::MAX as usize) / 4);
    let (i0, d0, g0) = (cs.inserted, cs.skipped_duplicate, cs.skipped_degeneracy);
    let (max0, tot0) = (cs.max_attempts, cs.total_attempts);
    let result = any_result();
    let attempts: usize = kani::any();
    kani::assume(attempts <= 8); // call-site bound: 1 + max perturbation attempts
    let st = InsertionStatistics { attempts, cells_removed_during_repair: kani::any(), result };
    cs.record_insertion(&st);
    match result {
        InsertionResult::Inserted => assert!(cs.inserted == i0 + 1 && cs.skipped_duplicate == d0 && cs.skipped_degeneracy == g0,
            "OBL count-inserted: an Inserted result increments `inserted` by exactly 1 and nothing else"),
        InsertionResult::SkippedDuplicate => assert!(cs.inserted == i0 && cs.skipped_duplicate == d0 + 1 && cs.skipped_degeneracy == g0,
            "OBL count-duplicate: a SkippedDuplicate result increments `skipped_duplicate` by exactly 1 and nothing else"),
        InsertionResult::SkippedDegeneracy => assert!(cs.inserted == i0 && cs.skipped_duplicate == d0 && cs.skipped_degeneracy == g0 + 1,
            "OBL count-degeneracy: a SkippedDegeneracy result increments `skipped_degeneracy` by exactly 1 and nothing else"),
    }
    assert!(cs.inserted + cs.total_skipped() == i0 + d0 + g0 + 1,
        "OBL conservation: inserted + total_skipped grows by exactly one per recorded insertion");
    assert!(cs.attempts_histogram.len() == attempts + 1 && cs.attempts_histogram[attempts] == 1, "OBL histogram: the attempts histogram has a bucket for this attempt count");
    assert!(cs.max_attempts >= max0 && cs.max_attempts >= attempts && cs.total_attempts >= tot0, "OBL monotone: attempt statistics never decrease");
    core::mem::forget(cs);
}

