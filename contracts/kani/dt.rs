//! Contracts for `src/core/delaunay_triangulation.rs` (child module: sees the private
//! fields `insertion_state` and `spatial_index`).
use super::*;
use crate::core::algorithms::flips::{BistellarFlipKind, FlipDirection, FlipInfo};
use crate::core::triangulation_data_structure::TriangulationConstructionState;
use crate::triangulation::flips::BistellarFlips;
use crate::geometry::point::Point;
use crate::geometry::traits::coordinate::Coordinate as _;
use slotmap::KeyData;

include!("/verif/contracts/kani/common.rs");

type Dt2 = DelaunayTriangulation<FastKernel<f64>, (), (), 2>;

const E_LOOKUP: u64 = 1; // Tds::vertex_key_from_uuid
const E_K1INV: u64 = 2; // apply_bistellar_flip_k1_inverse
const E_FAN: u64 = 3; // Triangulation::remove_vertex
const E_SHOULD: u64 = 4; // should_run_delaunay_repair_for
const E_REPAIR: u64 = 5; // repair_delaunay_with_flips_k2_k3
const E_K1: u64 = 6; // apply_bistellar_flip_k1
const E_L123: u64 = 7; // Triangulation::validate
const E_L4: u64 = 8; // DelaunayTriangulation::is_valid / verify_delaunay_via_flip_predicates
const E_L123REP: u64 = 9; // Triangulation::validation_report

// bits of VK_FAIL chosen by the harness
const B_UNKNOWN: u64 = 0; // uuid not found
const B_K1INV_ERR_WIRING: u64 = 1;
const B_K1INV_ERR_OTHER: u64 = 2;
const B_FAN_ERR: u64 = 3;
const B_SHOULD: u64 = 4;
const B_REPAIR_ERR: u64 = 5;
const B_K1_ERR: u64 = 6;
const B_L123_ERR: u64 = 7;
const B_L4_ERR: u64 = 8;

fn tag<T, U: DataType, V: DataType, const D: usize>(t: &Tds<T, U, V, D>) -> usize {
    match t.construction_state {
        TriangulationConstructionState::Incomplete(n) => n,
        TriangulationConstructionState::Constructed => usize::MAX,
    }
}
fn vkey(n: u64) -> VertexKey {
    VertexKey::from(KeyData::from_ffi(n))
}
fn ckey(n: u64) -> CellKey {
    CellKey::from(KeyData::from_ffi(n))
}
fn flip_info<const D: usize>(removed: usize) -> FlipInfo<D> {
    let mut removed_cells = CellKeyBuffer::new();
    let mut i = 0;
    while i < removed && i < 3 {
        removed_cells.push(ckey(0x1_0000_0001 + i as u64));
        i += 1;
    }
    FlipInfo {
        kind: BistellarFlipKind::k1(D),
        direction: FlipDirection::Inverse,
        removed_cells,
        new_cells: CellKeyBuffer::new(),
        removed_face_vertices: SmallBuffer::new(),
        inserted_face_vertices: SmallBuffer::new(),
    }
}

// ---- callee contracts ---------------------------------------------------------------------
// Ghost state is WRITE-ONLY inside the stubs (distinct flag statics, outcomes chosen with
// kani::any() inside the stub and recorded): a read-modify-write call log in stubs, combined with
// the clone / drop of the Tds snapshot in the function under contract, makes kani 0.68 report
// spurious `__rust_dealloc` failures whose assume() silently cuts every Ok path (seen in one
// environment, not in another - see DESIGN.md 8).
use core::sync::atomic::AtomicBool;
static L_UNKNOWN: AtomicBool = AtomicBool::new(false);
static L_KNOWN: AtomicBool = AtomicBool::new(false);
static K1_WIRING: AtomicBool = AtomicBool::new(false);
static K1_OTHER: AtomicBool = AtomicBool::new(false);
static K1_OK: AtomicBool = AtomicBool::new(false);
static FAN_OK: AtomicBool = AtomicBool::new(false);
static FAN_ERR: AtomicBool = AtomicBool::new(false);
static SHOULD_CALLED: AtomicBool = AtomicBool::new(false);
static SHOULD_VAL: AtomicBool = AtomicBool::new(false);
static REP_OK: AtomicBool = AtomicBool::new(false);
static REP_ERR: AtomicBool = AtomicBool::new(false);
const FAST_COUNT: usize = 2; // cells the fast path reports as removed
const FAN_COUNT: usize = 3; // cells the fan path reports as removed

fn reset_flags() {
    L_UNKNOWN.store(false, AOrd::Relaxed);
    L_KNOWN.store(false, AOrd::Relaxed);
    K1_WIRING.store(false, AOrd::Relaxed);
    K1_OTHER.store(false, AOrd::Relaxed);
    K1_OK.store(false, AOrd::Relaxed);
    FAN_OK.store(false, AOrd::Relaxed);
    FAN_ERR.store(false, AOrd::Relaxed);
    SHOULD_CALLED.store(false, AOrd::Relaxed);
    SHOULD_VAL.store(false, AOrd::Relaxed);
    REP_OK.store(false, AOrd::Relaxed);
    REP_ERR.store(false, AOrd::Relaxed);
}
/// "the callee changed the triangulation": states made by callees live in [2^32, 2^33), the
/// entry state below 2^32
fn havoc<T, U: DataType, V: DataType, const D: usize>(t: &mut Tds<T, U, V, D>) {
    t.construction_state = TriangulationConstructionState::Incomplete((1usize << 32) + kani::any::<u32>() as usize);
}
fn stub_lookup<T, U, V, const D: usize>(_t: &Tds<T, U, V, D>, _u: &Uuid) -> Option<VertexKey>
where U: DataType, V: DataType {
    if kani::any() { L_UNKNOWN.store(true, AOrd::Relaxed); None } else { L_KNOWN.store(true, AOrd::Relaxed); Some(vkey(0x1_0000_0001)) }
}
/// inverse k=1 flip: Ok => the state changed (any); Err => ASSUMED unchanged (its rollback is not under contract)
fn stub_k1inv<K, U, V, const D: usize>(
    tds: &mut Tds<K::Scalar, U, V, D>, _k: &K, _v: VertexKey,
) -> Result<FlipInfo<D>, FlipError>
where K: Kernel<D>, U: DataType, V: DataType {
    match kani::any::<u8>() % 3 {
        0 => { K1_WIRING.store(true, AOrd::Relaxed); Err(FlipError::NeighborWiring { message: String::with_capacity(1) }) }
        1 => { K1_OTHER.store(true, AOrd::Relaxed); Err(FlipError::UnsupportedDimension { dimension: 7 }) }
        _ => { K1_OK.store(true, AOrd::Relaxed); havoc(tds); Ok(flip_info::<D>(FAST_COUNT)) }
    }
}
/// fan removal: Ok(n) => the state changed (any); Err => unchanged (its own snapshot restore; ASSUMED)
fn stub_fan<K, U, V, const D: usize>(
    t: &mut Triangulation<K, U, V, D>, _v: &Vertex<K::Scalar, U, D>,
) -> Result<usize, crate::core::triangulation_data_structure::TdsMutationError>
where K: Kernel<D>, U: DataType, V: DataType, K::Scalar: ScalarAccumulative + NumCast {
    if kani::any() {
        FAN_ERR.store(true, AOrd::Relaxed);
        Err(TdsValidationError::InsufficientVertices {
            dimension: 3,
            source: crate::core::cell::CellValidationError::InvalidUuid { source: crate::core::util::UuidValidationError::NilUuid },
        }
        .into())
    } else {
        FAN_OK.store(true, AOrd::Relaxed);
        havoc(&mut t.tds);
        Ok(FAN_COUNT)
    }
}
fn stub_should<K, U, V, const D: usize>(_d: &DelaunayTriangulation<K, U, V, D>, _t: TopologyGuarantee, _n: usize) -> bool
where K: Kernel<D>, U: DataType, V: DataType {
    let b: bool = kani::any();
    SHOULD_CALLED.store(true, AOrd::Relaxed);
    SHOULD_VAL.store(b, AOrd::Relaxed);
    b
}
/// repair wrapper: contract PROVED by unit repair.protocol (Ok => any change; Err => unchanged)
fn stub_repair<K, U, V, const D: usize>(
    tds: &mut Tds<K::Scalar, U, V, D>, _k: &K, _s: Option<&[CellKey]>, _t: TopologyGuarantee,
) -> Result<DelaunayRepairStats, DelaunayRepairError>
where K: Kernel<D>, K::Scalar: ScalarSummable, U: DataType, V: DataType {
    if kani::any() {
        REP_ERR.store(true, AOrd::Relaxed);
        Err(DelaunayRepairError::Flip(FlipError::UnsupportedDimension { dimension: 9 }))
    } else {
        REP_OK.store(true, AOrd::Relaxed);
        havoc(tds);
        Ok(DelaunayRepairStats { facets_checked: 0, flips_performed: 0, max_queue_len: 0 })
    }
}
fn stub_format(_a: core::fmt::Arguments<'_>) -> String {
    String::with_capacity(1)
}

fn any_dt() -> Dt2 {
    let mut dt = Dt2::empty();
    dt.tri.tds.construction_state = TriangulationConstructionState::Incomplete(kani::any::<u32>() as usize);
    dt
}

// =========================================================================================
// C03 / C06: DelaunayTriangulation::remove_vertex for every outcome of its callees
// =========================================================================================
#[kani::proof]
#[kani::unwind(4)]
#[kani::stub(Tds::vertex_key_from_uuid, stub_lookup)]
#[kani::stub(crate::core::algorithms::flips::apply_bistellar_flip_k1_inverse, stub_k1inv)]
#[kani::stub(Triangulation::remove_vertex, stub_fan)]
#[kani::stub(DelaunayTriangulation::should_run_delaunay_repair_for, stub_should)]
#[kani::stub(crate::core::algorithms::flips::repair_delaunay_with_flips_k2_k3, stub_repair)]
#[kani::stub(alloc::fmt::format, stub_format)]
fn remove_vertex_contract() {
    let mut dt = any_dt();
    let tag0 = tag(&dt.tri.tds);
    reset_flags();
    let v: Vertex<f64, (), 2> = Vertex::new_with_uuid(Point::new([0.0, 0.0]), Uuid::nil(), None);
    let r = dt.remove_vertex(&v);
    let f = |a: &AtomicBool| a.load(AOrd::Relaxed);
    let k1_called = f(&K1_WIRING) || f(&K1_OTHER) || f(&K1_OK);
    let fan_called = f(&FAN_OK) || f(&FAN_ERR);
    let repair_called = f(&REP_OK) || f(&REP_ERR);
    if f(&L_UNKNOWN) {
        assert!(matches!(r, Ok(0)) && !k1_called && !fan_called && !repair_called && !f(&SHOULD_CALLED) && tag(&dt.tri.tds) == tag0,
            "OBL unknown-noop: removing an unknown vertex is Ok(0), reaches no mutating callee and changes nothing");
    } else {
        assert!(k1_called, "OBL fastpath-first: the inverse k=1 flip is always tried first");
        assert!(fan_called == f(&K1_OTHER), "OBL fan-fallback: the fan retriangulation runs iff the fast path is not applicable");
        match &r {
            Ok(n) => {
                assert!((f(&K1_OK) && *n == FAST_COUNT) || (f(&FAN_OK) && *n == FAN_COUNT),
                    "OBL ok-count: Ok(n) reports the cells removed by the path that ran (fast path: removed_cells.len(); fan path: its result)");
                assert!(f(&SHOULD_CALLED) && repair_called == f(&SHOULD_VAL) && !f(&REP_ERR), "OBL repair-iff-policy: the repair runs iff should_run_delaunay_repair_for says so");
            }
            Err(_) => {
                assert!(tag(&dt.tri.tds) == tag0, "OBL err-unchanged: Err => the triangulation is exactly as it was before the call");
            }
        }
    }
    kani::cover!(r.is_ok() && f(&REP_OK), "COV ok with repair");
    kani::cover!(r.is_ok() && !repair_called && f(&K1_OK), "COV ok without repair (fast path)");
    kani::cover!(r.is_err() && f(&REP_ERR), "COV repair fails after removal");
    kani::cover!(r.is_err() && f(&K1_WIRING), "COV wiring error");
    kani::cover!(r.is_ok() && f(&FAN_OK), "COV fan path ok");
    kani::cover!(r.is_err() && f(&FAN_ERR), "COV fan path fails");
    core::mem::forget(r);
    core::mem::forget(dt);
}

// =========================================================================================
// C09: a vertex that enters through the Edit API must drop the duplicate-detection cache
// =========================================================================================
fn stub_k1<K, U, V, const D: usize>(
    tds: &mut Tds<K::Scalar, U, V, D>, _k: &K, _c: CellKey, _v: Vertex<K::Scalar, U, D>,
) -> Result<FlipInfo<D>, FlipError>
where K: Kernel<D>, U: DataType, V: DataType {
    if kani::any() {
        K1_OTHER.store(true, AOrd::Relaxed);
        Err(FlipError::UnsupportedDimension { dimension: 5 })
    } else {
        K1_OK.store(true, AOrd::Relaxed);
        havoc(tds); // a vertex was added
        Ok(flip_info::<D>(1))
    }
}

#[kani::proof]
#[kani::unwind(4)]
#[kani::stub(crate::core::algorithms::flips::apply_bistellar_flip_k1, stub_k1)]
fn flip_k1_insert_index_contract() {
    let mut dt = any_dt();
    reset_flags();
    let seeded: bool = kani::any();
    if seeded {
        dt.spatial_index = Some(HashGridIndex::new(1e-10));
    }
    dt.insertion_state.last_inserted_cell = if kani::any() { Some(ckey(0x1_0000_0001)) } else { None };
    let v: Vertex<f64, (), 2> = Vertex::new_with_uuid(Point::new([0.25, 0.25]), Uuid::nil(), None);
    let r = BistellarFlips::flip_k1_insert(&mut dt, ckey(0x1_0000_0001), v);
    assert!(K1_OK.load(AOrd::Relaxed) != K1_OTHER.load(AOrd::Relaxed), "OBL delegates: the Edit-API insert delegates to the k=1 flip");
    assert!(r.is_err() == K1_OTHER.load(AOrd::Relaxed), "OBL verdict: the flip's verdict is returned");
    if r.is_ok() {
        assert!(dt.spatial_index.is_none(), "OBL index-dropped: after a vertex entered behind the duplicate index, the index is dropped (rebuilt from all vertices on next use)");
    }
    kani::cover!(r.is_ok() && seeded, "COV vertex added while an index existed");
    kani::cover!(r.is_err(), "COV flip refused");
    core::mem::forget(r);
    core::mem::forget(dt);
}

// Direct mutable access drops both caches (the escape hatch every other Edit path relies on)
#[kani::proof]
#[kani::unwind(4)]
fn mutable_access_drops_caches_contract() {
    let mut dt = any_dt();
    dt.spatial_index = Some(HashGridIndex::new(1e-10));
    dt.insertion_state.last_inserted_cell = Some(ckey(0x1_0000_0001));
    let _ = dt.as_triangulation_mut();
    assert!(dt.spatial_index.is_none() && dt.insertion_state.last_inserted_cell.is_none(),
        "OBL as-triangulation-mut: handing out &mut Triangulation drops the duplicate index and the locate hint");
    dt.spatial_index = Some(HashGridIndex::new(1e-10));
    dt.insertion_state.last_inserted_cell = Some(ckey(0x1_0000_0001));
    let _ = dt.triangulation_mut_for_edit();
    assert!(dt.spatial_index.is_none() && dt.insertion_state.last_inserted_cell.is_none(),
        "OBL edit-accessor: the Edit-API accessor drops the duplicate index and the locate hint");
    core::mem::forget(dt);
}

// =========================================================================================
// C06 / C08: when does automatic repair run
// =========================================================================================
fn stub_ncells<T, U, V, const D: usize>(_t: &Tds<T, U, V, D>) -> usize
where U: DataType, V: DataType {
    VK_NCELLS.load(AOrd::Relaxed)
}
fn any_repair_policy() -> DelaunayRepairPolicy {
    match kani::any::<u8>() % 3 {
        0 => DelaunayRepairPolicy::Never,
        1 => DelaunayRepairPolicy::EveryInsertion,
        _ => {
            let n: usize = kani::any();
            kani::assume(n >= 1 && n <= 64);
            DelaunayRepairPolicy::EveryN(core::num::NonZeroUsize::new(n).unwrap())
        }
    }
}
fn any_guarantee() -> TopologyGuarantee {
    match kani::any::<u8>() % 3 {
        0 => TopologyGuarantee::Pseudomanifold,
        1 => TopologyGuarantee::PLManifold,
        _ => TopologyGuarantee::PLManifoldStrict,
    }
}
macro_rules! should_run_instance {
    ($name:ident, $d:expr) => {
        #[kani::proof]
        #[kani::unwind(4)]
        #[kani::stub(Tds::number_of_cells, stub_ncells)]
        fn $name() {
            let mut dt = DelaunayTriangulation::<FastKernel<f64>, (), (), $d>::empty();
            let policy = any_repair_policy();
            dt.insertion_state.delaunay_repair_policy = policy;
            let ncells: usize = kani::any();
            vk_reset(0, ncells);
            let count: usize = kani::any();
            kani::assume(count <= 4096);
            let g = any_guarantee();
            let r = dt.should_run_delaunay_repair_for(g, count);
            if $d < 2 || ncells == 0 || matches!(policy, DelaunayRepairPolicy::Never) {
                assert!(!r, "OBL never-when: no automatic repair for D < 2, without cells, or under policy Never");
            } else {
                let due = match policy {
                    DelaunayRepairPolicy::Never => false,
                    DelaunayRepairPolicy::EveryInsertion => true,
                    DelaunayRepairPolicy::EveryN(n) => count % n.get() == 0,
                };
                // FacetFlip is admissible under every guarantee (Verus unit `admissibility`)
                assert!(r == due, "OBL due: otherwise repair runs exactly when the policy says it is due (every insertion / every n-th)");
            }
            kani::cover!(r || $d < 2, "COV repair due");
            kani::cover!((!r && ncells > 0 && !matches!(policy, DelaunayRepairPolicy::Never)) || $d < 2, "COV not due");
            core::mem::forget(dt);
        }
    };
}
should_run_instance!(should_run_repair_d2, 2);
should_run_instance!(should_run_repair_d1, 1);

// EveryN arithmetic of the two policies (the part Verus leaves uninterpreted)
#[kani::proof]
fn everyn_contract() {
    let n: usize = kani::any();
    kani::assume(n >= 1 && n <= 255);
    let c: usize = kani::any();
    kani::assume(c <= 65535);
    let nz = core::num::NonZeroUsize::new(n).unwrap();
    assert!(DelaunayRepairPolicy::EveryN(nz).should_repair(c) == (c % n == 0), "OBL repair-everyn: EveryN(n) repairs exactly on multiples of n");
    assert!(DelaunayCheckPolicy::EveryN(nz).should_check(c) == (c % n == 0), "OBL check-everyn: EveryN(n) checks exactly on multiples of n");
    assert!(!DelaunayCheckPolicy::EndOnly.should_check(c), "OBL check-endonly: EndOnly never checks per insertion");
}

// =========================================================================================
// C08: the public repair entry point - gate, then the proved wrapper
// =========================================================================================
#[kani::proof]
#[kani::unwind(4)]
#[kani::stub(crate::core::algorithms::flips::repair_delaunay_with_flips_k2_k3, stub_repair)]
fn repair_entry_contract() {
    let mut dt = any_dt();
    dt.tri.topology_guarantee = any_guarantee();
    let tag0 = tag(&dt.tri.tds);
    reset_flags();
    let r = dt.repair_delaunay_with_flips();
    assert!(!(REP_OK.load(AOrd::Relaxed) && REP_ERR.load(AOrd::Relaxed)), "OBL single-run: the engine wrapper runs at most once");
    match &r {
        Ok(_) => assert!(REP_OK.load(AOrd::Relaxed), "OBL ok-from-engine: Ok only comes from the repair wrapper"),
        Err(_) => assert!(tag(&dt.tri.tds) == tag0, "OBL err-unchanged: Err => triangulation unchanged"),
    }
    kani::cover!(r.is_ok(), "COV ok");
    kani::cover!(r.is_err(), "COV err");
    core::mem::forget(r);
    core::mem::forget(dt);
}

// =========================================================================================
// C04: verdict plumbing of the Level-4 entry points
// =========================================================================================
fn stub_l123<K, U, V, const D: usize>(_t: &Triangulation<K, U, V, D>) -> Result<(), TriangulationValidationError>
where K: Kernel<D>, U: DataType, V: DataType, K::Scalar: CoordinateScalar {
    vk_event(E_L123);
    if vk_fails(B_L123_ERR) {
        Err(TriangulationValidationError::ManifoldFacetMultiplicity { facet_key: 1, cell_count: 0 })
    } else {
        Ok(())
    }
}
fn stub_flipverify<K, U, V, const D: usize>(_t: &Tds<K::Scalar, U, V, D>, _k: &K) -> Result<(), DelaunayRepairError>
where K: Kernel<D>, K::Scalar: ScalarSummable, U: DataType, V: DataType {
    vk_event(E_L4);
    if vk_fails(B_L4_ERR) {
        Err(DelaunayRepairError::Flip(FlipError::UnsupportedDimension { dimension: 4 }))
    } else {
        Ok(())
    }
}
fn stub_dt_is_valid<K, U, V, const D: usize>(_d: &DelaunayTriangulation<K, U, V, D>) -> Result<(), DelaunayTriangulationValidationError>
where K: Kernel<D>, U: DataType, V: DataType, K::Scalar: ScalarSummable {
    vk_event(E_L4);
    if vk_fails(B_L4_ERR) {
        Err(DelaunayTriangulationValidationError::DelaunayViolation { cell_key: ckey(0x1_0000_0001), cell_uuid: Uuid::nil() })
    } else {
        Ok(())
    }
}

#[kani::proof]
#[kani::unwind(4)]
#[kani::stub(crate::core::algorithms::flips::verify_delaunay_via_flip_predicates, stub_flipverify)]
#[kani::stub(alloc::fmt::format, stub_format)]
fn level4_is_valid_contract() {
    let dt = any_dt();
    let fail: u64 = kani::any();
    vk_reset(fail, 0);
    let r = dt.is_valid();
    assert!(vk_called(E_L4) && vk_ncalls() == 1, "OBL consults-verifier: is_valid consults the flip-predicate verifier exactly once");
    assert!(r.is_err() == ((fail >> B_L4_ERR) & 1 == 1), "OBL verdict: is_valid is Err exactly when the verifier reports a violation");
    kani::cover!(r.is_err(), "COV violation reported");
    kani::cover!(r.is_ok(), "COV accepted");
    core::mem::forget(r);
    core::mem::forget(dt);
}

#[kani::proof]
#[kani::unwind(4)]
#[kani::stub(Triangulation::validate, stub_l123)]
#[kani::stub(DelaunayTriangulation::is_valid, stub_dt_is_valid)]
fn level4_validate_contract() {
    let dt = any_dt();
    let fail: u64 = kani::any();
    vk_reset(fail, 0);
    let r = dt.validate();
    let bit = |b: u64| (fail >> b) & 1 == 1;
    assert!(r.is_ok() == (!bit(B_L123_ERR) && !bit(B_L4_ERR)), "OBL conjunction: validate Ok <=> Levels 1-3 (Triangulation::validate) && Level 4 (is_valid)");
    if r.is_ok() {
        assert!(vk_called(E_L123) && vk_called(E_L4) && vk_ncalls() == 2, "OBL all-consulted: both the lower levels and the Delaunay level are consulted");
    }
    kani::cover!(r.is_ok(), "COV valid");
    kani::cover!(r.is_err() && !bit(B_L123_ERR), "COV only Level 4 fails");
    core::mem::forget(r);
    core::mem::forget(dt);
}


// =========================================================================================
// C04 / C05: the Delaunay-layer diagnostic report - Level 4 appears exactly when is_valid fails
// =========================================================================================
use crate::core::triangulation_data_structure::{InvariantError, InvariantKind, InvariantViolation, TriangulationValidationReport};
static REP_LOWER_ERR: AtomicBool = AtomicBool::new(false);
static REP_LOWER_MAPPING: AtomicBool = AtomicBool::new(false);
static REP_L4_CALLED: AtomicBool = AtomicBool::new(false);
static REP_L4_ERR: AtomicBool = AtomicBool::new(false);

fn stub_lower_report<K, U, V, const D: usize>(_t: &Triangulation<K, U, V, D>) -> Result<(), TriangulationValidationReport>
where K: Kernel<D>, U: DataType, V: DataType, K::Scalar: CoordinateScalar {
    if kani::any() {
        Ok(())
    } else {
        REP_LOWER_ERR.store(true, AOrd::Relaxed);
        let kind = if kani::any() { REP_LOWER_MAPPING.store(true, AOrd::Relaxed); InvariantKind::VertexMappings } else { InvariantKind::Topology };
        let mut violations = Vec::with_capacity(4);
        violations.push(InvariantViolation {
            kind,
            error: InvariantError::Triangulation(TriangulationValidationError::ManifoldFacetMultiplicity { facet_key: 1, cell_count: 0 }),
        });
        Err(TriangulationValidationReport { violations })
    }
}
fn stub_dt_is_valid_w<K, U, V, const D: usize>(_d: &DelaunayTriangulation<K, U, V, D>) -> Result<(), DelaunayTriangulationValidationError>
where K: Kernel<D>, U: DataType, V: DataType, K::Scalar: ScalarSummable {
    REP_L4_CALLED.store(true, AOrd::Relaxed);
    if kani::any() {
        REP_L4_ERR.store(true, AOrd::Relaxed);
        Err(DelaunayTriangulationValidationError::DelaunayViolation { cell_key: ckey(0x1_0000_0001), cell_uuid: Uuid::nil() })
    } else {
        Ok(())
    }
}

#[kani::proof]
#[kani::unwind(6)]
#[kani::stub(Triangulation::validation_report, stub_lower_report)]
#[kani::stub(DelaunayTriangulation::is_valid, stub_dt_is_valid_w)]
fn level4_report_contract() {
    let dt = any_dt();
    REP_LOWER_ERR.store(false, AOrd::Relaxed);
    REP_LOWER_MAPPING.store(false, AOrd::Relaxed);
    REP_L4_CALLED.store(false, AOrd::Relaxed);
    REP_L4_ERR.store(false, AOrd::Relaxed);
    let r = dt.validation_report();
    let f = |a: &AtomicBool| a.load(AOrd::Relaxed);
    if f(&REP_LOWER_MAPPING) {
        assert!(r.is_err() && !f(&REP_L4_CALLED), "OBL mapping-stop: with inconsistent mappings the lower report is returned unchanged and Level 4 is not evaluated");
    } else {
        assert!(f(&REP_L4_CALLED), "OBL level4-evaluated: otherwise the Delaunay level is always evaluated");
        assert!(r.is_ok() == (!f(&REP_LOWER_ERR) && !f(&REP_L4_ERR)), "OBL report-iff-all-levels: the report is empty exactly when Levels 1-3 report nothing and the Delaunay check passes");
        if let Err(rep) = &r {
            let n = rep.violations.len();
            let has_l4 = (n >= 1 && matches!(rep.violations[n - 1].kind, InvariantKind::DelaunayProperty));
            assert!(has_l4 == f(&REP_L4_ERR), "OBL delaunay-entry-iff-violation: the report carries a DelaunayProperty entry exactly when the Delaunay check failed");
            assert!(n == (f(&REP_LOWER_ERR) as usize) + (f(&REP_L4_ERR) as usize), "OBL nothing-lost: lower-level violations are kept, nothing is invented");
        }
    }
    kani::cover!(r.is_ok(), "COV empty report");
    kani::cover!(r.is_err() && f(&REP_L4_ERR) && !f(&REP_LOWER_ERR), "COV only Level 4 fails");
    kani::cover!(r.is_err() && f(&REP_L4_ERR) && f(&REP_LOWER_ERR) && !f(&REP_LOWER_MAPPING), "COV lower level and Level 4 fail");
    core::mem::forget(r);
    core::mem::forget(dt);
}
