//! K-slice of `Triangulation::build_adjacency_index` (C15): the "vertex -> edges" part of the
//! per-cell loop body.  Edge keys stored in the index must be the CANONICAL keys (`EdgeKey::new`
//! order), otherwise indexed and non-indexed edge queries disagree.  Decided on one concrete pair
//! of vertex keys whose slot-map order (index first) and canonical order (version first) differ -
//! the situation after a vertex slot has been reused.
use super::*;
use crate::core::collections::{FastHashMap, FastHashSet};
use crate::core::edge::EdgeKey;
use slotmap::KeyData;

#[kani::proof]
#[kani::unwind(20)]
fn edge_index_canonical_contract() {
    // a: slot 7, version 1 (old vertex); b: slot 1, version 3 (slot reused after a removal)
    let a = VertexKey::from(KeyData::from_ffi(0x1_0000_0007));
    let b = VertexKey::from(KeyData::from_ffi(0x3_0000_0001));
    let canonical = EdgeKey::new(a, b);
    assert!(canonical == EdgeKey::new(b, a), "OBL new-order-free: EdgeKey::new does not depend on the order of its arguments");
    // the edge {a, b} was already recorded (by an earlier cell) under its canonical key
    let mut seen: FastHashSet<EdgeKey> = FastHashSet::default();
    seen.insert(canonical);
    let map: FastHashMap<VertexKey, SmallBuffer<EdgeKey, MAX_PRACTICAL_DIMENSION_SIZE>> = FastHashMap::default();
    let vertices = [b, a];
    let (seen, map) = Triangulation::<crate::geometry::kernel::FastKernel<f64>, (), (), 2>::verif_slice_index_edges(&vertices, seen, map);
    kani::cover!(seen.len() == 1, "COV edge recognised");
    assert!(seen.len() == 1 && map.is_empty(),
        "OBL edge-keys-canonical: the edge of a cell is looked up under its canonical key (an edge already recorded is recognised, nothing is filed under a second, non-canonical key)");
    core::mem::forget(seen);
    core::mem::forget(map);
}
