//! C05: parity of the permutation between two facet vertex orders (used by the coherent
//! orientation validator): correct parity for every pair of orders of 3 distinct ids, None when
//! the two lists are not permutations of each other.
use super::*;
type T2 = Tds<f64, (), (), 2>;

#[kani::proof]
#[kani::unwind(8)]
fn permutation_parity_contract() {
    // ids 0,1,2 in an arbitrary order (target) against the identity order (source)
    let p: [u8; 3] = kani::any();
    kani::assume(p[0] < 3 && p[1] < 3 && p[2] < 3);
    let src = [0u8, 1, 2];
    let r = T2::permutation_is_odd(&src, &p);
    let is_perm = p[0] != p[1] && p[0] != p[2] && p[1] != p[2];
    if is_perm {
        // independent parity: number of inversions of p^-1 == number of inversions of p (mod 2)
        let inv = (p[0] > p[1]) as u8 + (p[0] > p[2]) as u8 + (p[1] > p[2]) as u8;
        assert!(r == Some(inv % 2 == 1), "OBL parity: permutation_is_odd returns the parity of the permutation taking one order to the other (all 6 orders of 3 ids)");
    } else {
        assert!(r.is_none(), "OBL not-a-permutation: a repeated or missing id is reported as None, never as a parity");
    }
    let short = T2::permutation_is_odd(&src[..2], &p);
    assert!(short.is_none(), "OBL length-mismatch: different lengths => None");
    kani::cover!(r == Some(true), "COV odd");
    kani::cover!(r == Some(false), "COV even");
}
