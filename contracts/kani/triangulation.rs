//! Contracts for `src/core/triangulation.rs` (child module of the file under proof).
use super::*;
use crate::geometry::kernel::FastKernel;
use crate::topology::characteristics::euler::{FVector, TopologyClassification};
use crate::topology::characteristics::validation::TopologyCheckResult;
use crate::topology::manifold::ManifoldError;

include!("/verif/contracts/kani/common.rs");

type Tri2 = Triangulation<FastKernel<f64>, (), (), 2>;

// callee codes
const C_CONN: u64 = 1; // validate_global_connectedness
const C_MAP: u64 = 2; // Tds::build_facet_to_cells_map
const C_DEG: u64 = 3; // validate_facet_degree
const C_BND: u64 = 4; // validate_closed_boundary
const C_RIDGE: u64 = 5; // validate_ridge_links
const C_VLINK: u64 = 6; // validate_vertex_links
const C_ISO: u64 = 7; // validate_no_isolated_vertices
const C_EULER: u64 = 8; // validate_triangulation_euler_with_facet_to_cells_map
const C_ORIENT: u64 = 9; // validate_geometric_cell_orientation
const C_L3: u64 = 10; // Triangulation::is_valid
const C_LINKS: u64 = 11; // validate_required_topology_links
const C_L2: u64 = 12; // Tds::validate
const C_COMPL: u64 = 13; // validate_at_completion
const C_L2REP: u64 = 14; // Tds::validation_report

fn terr(code: u64) -> TriangulationValidationError {
    // heap-free variant; facet_key identifies the callee that "failed"
    TriangulationValidationError::ManifoldFacetMultiplicity { facet_key: code, cell_count: 0 }
}
fn merr(code: u64) -> ManifoldError {
    ManifoldError::ManifoldFacetMultiplicity { facet_key: code, cell_count: 0 }
}
fn tdserr(code: u64) -> TdsValidationError {
    TdsValidationError::InsufficientVertices {
        dimension: code as usize,
        source: crate::core::cell::CellValidationError::InvalidUuid { source: crate::core::util::UuidValidationError::NilUuid },
    }
}
/// which callee does a returned error come from? (0 = not one of ours)
fn err_code(e: &TriangulationValidationError) -> u64 {
    match e {
        TriangulationValidationError::ManifoldFacetMultiplicity { facet_key, cell_count: 0 } => *facet_key,
        TriangulationValidationError::Tds(TdsValidationError::InsufficientVertices { dimension, .. }) => *dimension as u64,
        TriangulationValidationError::EulerCharacteristicMismatch { .. } => C_EULER,
        _ => 0,
    }
}

// ---- stubs = callee contracts ("any verdict, no state change") ---------------------------
fn stub_conn<K, U, V, const D: usize>(_t: &Triangulation<K, U, V, D>) -> Result<(), TriangulationValidationError>
where K: Kernel<D>, U: DataType, V: DataType {
    vk_event(C_CONN);
    if vk_fails(C_CONN) { Err(terr(C_CONN)) } else { Ok(()) }
}
fn stub_map<T, U, V, const D: usize>(_t: &Tds<T, U, V, D>) -> Result<FacetToCellsMap, TdsValidationError>
where U: DataType, V: DataType {
    vk_event(C_MAP);
    if vk_fails(C_MAP) { Err(tdserr(C_MAP)) } else { Ok(FacetToCellsMap::default()) }
}
fn stub_deg(_m: &FacetToCellsMap) -> Result<(), ManifoldError> {
    vk_event(C_DEG);
    if vk_fails(C_DEG) { Err(merr(C_DEG)) } else { Ok(()) }
}
fn stub_bnd<T, U, V, const D: usize>(_t: &Tds<T, U, V, D>, _m: &FacetToCellsMap) -> Result<(), ManifoldError>
where T: CoordinateScalar, U: DataType, V: DataType {
    vk_event(C_BND);
    if vk_fails(C_BND) { Err(merr(C_BND)) } else { Ok(()) }
}
fn stub_ridge<T, U, V, const D: usize>(_t: &Tds<T, U, V, D>) -> Result<(), ManifoldError>
where T: CoordinateScalar, U: DataType, V: DataType {
    vk_event(C_RIDGE);
    if vk_fails(C_RIDGE) { Err(merr(C_RIDGE)) } else { Ok(()) }
}
fn stub_vlink<T, U, V, const D: usize>(_t: &Tds<T, U, V, D>, _m: &FacetToCellsMap) -> Result<(), ManifoldError>
where T: CoordinateScalar, U: DataType, V: DataType {
    vk_event(C_VLINK);
    if vk_fails(C_VLINK) { Err(merr(C_VLINK)) } else { Ok(()) }
}
fn stub_iso<K, U, V, const D: usize>(_t: &Triangulation<K, U, V, D>) -> Result<(), TriangulationValidationError>
where K: Kernel<D>, U: DataType, V: DataType {
    vk_event(C_ISO);
    if vk_fails(C_ISO) { Err(terr(C_ISO)) } else { Ok(()) }
}
/// contract: returns any (chi, expected); the FAIL bit decides whether they disagree
fn stub_euler<T, U, V, const D: usize>(_t: &Tds<T, U, V, D>, _m: &FacetToCellsMap) -> TopologyCheckResult
where T: CoordinateScalar, U: DataType, V: DataType {
    vk_event(C_EULER);
    let chi: isize = kani::any();
    let expected: Option<isize> = if VK_AUX.load(AOrd::Relaxed) & 1 == 1 {
        None // classification Unknown: nothing to compare against
    } else if vk_fails(C_EULER) {
        let e: isize = kani::any();
        kani::assume(e != chi);
        Some(e)
    } else {
        Some(chi)
    };
    TopologyCheckResult { chi, expected, classification: TopologyClassification::Unknown, counts: FVector { by_dim: Vec::with_capacity(1) }, notes: Vec::with_capacity(1) }
    // (with_capacity, not Vec::new(): kani 0.68 encodes the const `Vec::new()` with a bogus capacity of 1)
}
fn stub_orient<K, U, V, const D: usize>(_t: &Triangulation<K, U, V, D>) -> Result<(), TriangulationValidationError>
where K: Kernel<D>, U: DataType, V: DataType {
    vk_event(C_ORIENT);
    if vk_fails(C_ORIENT) { Err(terr(C_ORIENT)) } else { Ok(()) }
}
fn stub_l3<K, U, V, const D: usize>(_t: &Triangulation<K, U, V, D>) -> Result<(), TriangulationValidationError>
where K: Kernel<D>, U: DataType, V: DataType, K::Scalar: CoordinateScalar {
    vk_event(C_L3);
    if vk_fails(C_L3) { Err(terr(C_L3)) } else { Ok(()) }
}
fn stub_links<K, U, V, const D: usize>(_t: &Triangulation<K, U, V, D>) -> Result<(), TriangulationValidationError>
where K: Kernel<D>, U: DataType, V: DataType, K::Scalar: CoordinateScalar {
    vk_event(C_LINKS);
    if vk_fails(C_LINKS) { Err(terr(C_LINKS)) } else { Ok(()) }
}
fn stub_l2<T, U, V, const D: usize>(_t: &Tds<T, U, V, D>) -> Result<(), TdsValidationError>
where T: CoordinateScalar, U: DataType, V: DataType {
    vk_event(C_L2);
    if vk_fails(C_L2) { Err(tdserr(C_L2)) } else { Ok(()) }
}
fn stub_compl<K, U, V, const D: usize>(_t: &Triangulation<K, U, V, D>) -> Result<(), TriangulationValidationError>
where K: Kernel<D>, U: DataType, V: DataType {
    vk_event(C_COMPL);
    if vk_fails(C_COMPL) { Err(terr(C_COMPL)) } else { Ok(()) }
}
fn stub_ncells<T, U, V, const D: usize>(_t: &Tds<T, U, V, D>) -> usize
where U: DataType, V: DataType {
    VK_NCELLS.load(AOrd::Relaxed)
}
fn stub_log<K, U, V, const D: usize>(_t: &Triangulation<K, U, V, D>, _s: SuspicionFlags)
where K: Kernel<D>, U: DataType, V: DataType {}
fn stub_format(_a: core::fmt::Arguments<'_>) -> String {
    String::new()
}

fn any_policy() -> ValidationPolicy {
    match kani::any::<u8>() % 4 {
        0 => ValidationPolicy::Never,
        1 => ValidationPolicy::OnSuspicion,
        2 => ValidationPolicy::Always,
        _ => ValidationPolicy::DebugOnly,
    }
}
fn any_guarantee() -> TopologyGuarantee {
    match kani::any::<u8>() % 3 {
        0 => TopologyGuarantee::Pseudomanifold,
        1 => TopologyGuarantee::PLManifold,
        _ => TopologyGuarantee::PLManifoldStrict,
    }
}
fn any_flags() -> SuspicionFlags {
    SuspicionFlags {
        perturbation_used: kani::any(),
        empty_conflict_region: kani::any(),
        fallback_star_split: kani::any(),
        repair_loop_entered: kani::any(),
        cells_removed: kani::any(),
        neighbor_pointers_rebuilt: kani::any(),
    }
}
fn any_tri() -> Tri2 {
    let mut t = Tri2::new_empty(FastKernel::new());
    t.validation_policy = any_policy();
    t.topology_guarantee = any_guarantee();
    t
}

// =========================================================================================
// C02: validate_after_insertion - what is checked after an insertion, for every
// policy x guarantee x suspicion vector x cell count, and that the verdict is returned.
// =========================================================================================
#[kani::proof]
#[kani::stub(Triangulation::is_valid, stub_l3)]
#[kani::stub(Triangulation::validate_required_topology_links, stub_links)]
#[kani::stub(Triangulation::log_validation_trigger_if_enabled, stub_log)]
#[kani::stub(Tds::number_of_cells, stub_ncells)]
fn validate_after_insertion_contract() {
    let t = any_tri();
    let flags = any_flags();
    let ncells: usize = kani::any();
    vk_reset(kani::any(), ncells);
    let policy = t.validation_policy;
    let g = t.topology_guarantee;
    let suspicious = flags.perturbation_used || flags.empty_conflict_region || flags.fallback_star_split
        || flags.repair_loop_entered || flags.cells_removed || flags.neighbor_pointers_rebuilt;
    // spec of should_validate (proved on the real function by Verus unit `policy`)
    let should = match policy {
        ValidationPolicy::Never => false,
        ValidationPolicy::Always => true,
        ValidationPolicy::OnSuspicion => suspicious,
        ValidationPolicy::DebugOnly => true, // dev profile (the profile Kani builds)
    };
    let r = t.validate_after_insertion(flags);
    let full = vk_called(C_L3);
    let links = vk_called(C_LINKS);
    if ncells == 0 {
        assert!(r.is_ok() && vk_ncalls() == 0, "OBL bootstrap: no cells => Ok without any validation call");
    } else {
        let manifold_mode = !matches!(g, TopologyGuarantee::Pseudomanifold);
        if manifold_mode {
            assert!(vk_ncalls() == 1 && (full != links),
                "OBL non-negotiable: with cells and a PL-manifold guarantee exactly one of {full Level 3, required-link validation} runs, whatever the ValidationPolicy");
        }
        if should {
            assert!(full && !links, "OBL policy-full: should_validate => the full Level-3 validation is the one that runs");
        }
        if !manifold_mode && !should {
            assert!(vk_ncalls() == 0 && r.is_ok(), "OBL pseudo-hole: Pseudomanifold and !should_validate => Ok without a check (documented gap, pinned)");
        }
        if full {
            assert!(r.is_err() == vk_fails(C_L3), "OBL verdict-full: the Level-3 verdict is returned unchanged");
        }
        if links {
            assert!(r.is_err() == vk_fails(C_LINKS), "OBL verdict-links: the link-validation verdict is returned unchanged");
        }
        if let Err(e) = &r {
            assert!(err_code(e) == C_L3 || err_code(e) == C_LINKS, "OBL err-origin: an Err is always a validator's Err");
        }
    }
    kani::cover!(ncells > 0 && full && r.is_err(), "COV full validation fails");
    kani::cover!(ncells > 0 && links && r.is_err(), "COV link validation fails");
    kani::cover!(ncells > 0 && links && r.is_ok(), "COV link validation passes");
    kani::cover!(ncells > 0 && !full && !links, "COV pseudomanifold hole");
    core::mem::forget(r);
    core::mem::forget(t);
}

// =========================================================================================
// C02/C05: validate_required_topology_links - which link checks run per guarantee
// =========================================================================================
#[kani::proof]
#[kani::stub(Tds::number_of_cells, stub_ncells)]
#[kani::stub(Tds::build_facet_to_cells_map, stub_map)]
#[kani::stub(crate::topology::manifold::validate_facet_degree, stub_deg)]
#[kani::stub(crate::topology::manifold::validate_closed_boundary, stub_bnd)]
#[kani::stub(crate::topology::manifold::validate_ridge_links, stub_ridge)]
#[kani::stub(crate::topology::manifold::validate_vertex_links, stub_vlink)]
#[kani::stub(Triangulation::validate_geometric_cell_orientation, stub_orient)]
#[kani::unwind(2)]
fn required_links_contract() {
    let t = any_tri();
    let ncells: usize = kani::any();
    let fail: u64 = kani::any();
    vk_reset(fail, ncells);
    let g = t.topology_guarantee;
    let r = t.validate_required_topology_links();
    let bit = |c: u64| (fail >> c) & 1 == 1;
    if ncells == 0 || matches!(g, TopologyGuarantee::Pseudomanifold) {
        assert!(r.is_ok() && vk_ncalls() == 0, "OBL nothing-required: no cells or Pseudomanifold => Ok, no check");
    } else {
        let strict = matches!(g, TopologyGuarantee::PLManifoldStrict);
        let must_pass = !bit(C_MAP) && !bit(C_DEG) && !bit(C_BND) && !bit(C_RIDGE) && (!strict || !bit(C_VLINK)) && !bit(C_ORIENT);
        assert!(r.is_ok() == must_pass,
            "OBL conjunction: Ok <=> facet map, facet degree, closed boundary, ridge links, (Strict: vertex links) and geometric orientation all pass");
        if must_pass {
            assert!(vk_called(C_DEG) && vk_called(C_BND) && vk_called(C_RIDGE) && vk_called(C_ORIENT) && (vk_called(C_VLINK) == strict),
                "OBL all-consulted: on the passing path every required check was consulted (vertex links iff Strict)");
        }
        if let Err(e) = &r {
            let c = err_code(e);
            assert!(c != 0 && bit(c), "OBL err-origin: the Err returned is the Err of a check that failed");
        }
    }
    kani::cover!(r.is_ok() && vk_ncalls() > 0, "COV passes with checks");
    kani::cover!(r.is_err(), "COV fails");
    core::mem::forget(r);
    core::mem::forget(t);
}

// =========================================================================================
// C05/C15: Triangulation::is_valid (Level 3) == conjunction of its invariants
// =========================================================================================
#[kani::proof]
#[kani::stub(Triangulation::validate_global_connectedness, stub_conn)]
#[kani::stub(Tds::build_facet_to_cells_map, stub_map)]
#[kani::stub(crate::topology::manifold::validate_facet_degree, stub_deg)]
#[kani::stub(crate::topology::manifold::validate_closed_boundary, stub_bnd)]
#[kani::stub(crate::topology::manifold::validate_ridge_links, stub_ridge)]
#[kani::stub(crate::topology::manifold::validate_vertex_links, stub_vlink)]
#[kani::stub(Triangulation::validate_no_isolated_vertices, stub_iso)]
#[kani::stub(crate::topology::characteristics::validation::validate_triangulation_euler_with_facet_to_cells_map, stub_euler)]
#[kani::stub(Triangulation::validate_geometric_cell_orientation, stub_orient)]
#[kani::unwind(2)]
fn level3_conjunction_contract() {
    let t = any_tri();
    let fail: u64 = kani::any();
    vk_reset(fail, 0);
    let unknown_chi: bool = kani::any();
    VK_AUX.store(unknown_chi as u64, AOrd::Relaxed);
    let g = t.topology_guarantee;
    let r = t.is_valid();
    let bit = |c: u64| (fail >> c) & 1 == 1;
    let ridge_req = !matches!(g, TopologyGuarantee::Pseudomanifold);
    let strict = matches!(g, TopologyGuarantee::PLManifoldStrict);
    let must_pass = !bit(C_CONN) && !bit(C_MAP) && !bit(C_DEG) && !bit(C_BND)
        && (!ridge_req || !bit(C_RIDGE)) && (!strict || !bit(C_VLINK)) && !bit(C_ISO)
        && (unknown_chi || !bit(C_EULER)) && !bit(C_ORIENT);
    assert!(r.is_ok() == must_pass,
        "OBL conjunction: Level 3 Ok <=> connectedness, facet degree, closed boundary, (guarantee != Pseudomanifold: ridge links), (Strict: vertex links), no isolated vertex, (expected chi known: chi == expected), geometric orientation");
    if must_pass {
        assert!(vk_called(C_CONN) && vk_called(C_DEG) && vk_called(C_BND) && vk_called(C_ISO) && vk_called(C_EULER) && vk_called(C_ORIENT)
            && (vk_called(C_RIDGE) == ridge_req) && (vk_called(C_VLINK) == strict),
            "OBL all-consulted: on the passing path every invariant of the level was consulted (ridge links iff guarantee requires, vertex links iff Strict)");
    }
    if let Err(e) = &r {
        let c = err_code(e);
        assert!(c != 0 && bit(c), "OBL err-origin: the Err returned belongs to an invariant that failed");
    }
    kani::cover!(r.is_ok(), "COV valid");
    kani::cover!(r.is_err() && strict, "COV invalid strict");
    kani::cover!(matches!(&r, Err(TriangulationValidationError::EulerCharacteristicMismatch { .. })), "COV euler mismatch");
    core::mem::forget(r);
    core::mem::forget(t);
}

// =========================================================================================
// C05: cumulative validate == Level 1-2 (Tds::validate) && Level 3 && completion check;
//      validate_at_completion runs vertex links iff the guarantee asks for it
// =========================================================================================
#[kani::proof]
#[kani::stub(Tds::validate, stub_l2)]
#[kani::stub(Triangulation::is_valid, stub_l3)]
#[kani::stub(Triangulation::validate_at_completion, stub_compl)]
fn validate_cumulative_contract() {
    let t = any_tri();
    let fail: u64 = kani::any();
    vk_reset(fail, 0);
    let r = t.validate();
    let bit = |c: u64| (fail >> c) & 1 == 1;
    let must_pass = !bit(C_L2) && !bit(C_L3) && !bit(C_COMPL);
    assert!(r.is_ok() == must_pass, "OBL conjunction: validate Ok <=> Tds::validate (Levels 1-2) && is_valid (Level 3) && validate_at_completion");
    if must_pass {
        assert!(vk_ncalls() == 3 && vk_called(C_L2) && vk_called(C_L3) && vk_called(C_COMPL), "OBL all-consulted: all three levels are consulted");
    }
    if let Err(e) = &r {
        let c = err_code(e);
        assert!(c != 0 && bit(c), "OBL err-origin: the Err returned belongs to the level that failed");
    }
    kani::cover!(r.is_ok(), "COV valid");
    kani::cover!(r.is_err(), "COV invalid");
    core::mem::forget(r);
    core::mem::forget(t);
}

#[kani::proof]
#[kani::stub(Tds::number_of_cells, stub_ncells)]
#[kani::stub(Tds::build_facet_to_cells_map, stub_map)]
#[kani::stub(crate::topology::manifold::validate_vertex_links, stub_vlink)]
#[kani::unwind(2)]
fn validate_at_completion_contract() {
    let t = any_tri();
    let fail: u64 = kani::any();
    let ncells: usize = kani::any();
    vk_reset(fail, ncells);
    let g = t.topology_guarantee;
    let r = t.validate_at_completion();
    let bit = |c: u64| (fail >> c) & 1 == 1;
    let required = !matches!(g, TopologyGuarantee::Pseudomanifold) && ncells > 0;
    if required {
        assert!(r.is_ok() == (!bit(C_MAP) && !bit(C_VLINK)), "OBL completion-links: PLManifold/Strict with cells => Ok <=> the vertex-link validation passes");
        if !bit(C_MAP) {
            assert!(vk_called(C_VLINK), "OBL links-consulted: vertex links are consulted");
        }
    } else {
        assert!(r.is_ok() && !vk_called(C_VLINK), "OBL completion-skip: Pseudomanifold or no cells => Ok without vertex-link validation");
    }
    kani::cover!(required && r.is_err(), "COV completion fails");
    kani::cover!(required && r.is_ok(), "COV completion passes");
    core::mem::forget(r);
    core::mem::forget(t);
}

// =========================================================================================
// C05: the diagnostic report is empty exactly when cumulative validation passes
// =========================================================================================
fn stub_l2rep<T, U, V, const D: usize>(_t: &Tds<T, U, V, D>) -> Result<(), TriangulationValidationReport>
where U: DataType, V: DataType {
    vk_event(C_L2REP);
    if vk_fails(C_L2REP) {
        let kind = if VK_AUX.load(AOrd::Relaxed) & 1 == 1 { InvariantKind::VertexMappings } else { InvariantKind::FacetSharing };
        let mut violations = Vec::with_capacity(4);
        violations.push(InvariantViolation { kind, error: InvariantError::Tds(tdserr(C_L2REP)) });
        Err(TriangulationValidationReport { violations })
    } else {
        Ok(())
    }
}

#[kani::proof]
#[kani::unwind(4)]
#[kani::stub(Tds::validation_report, stub_l2rep)]
#[kani::stub(Triangulation::is_valid, stub_l3)]
#[kani::stub(Triangulation::validate_at_completion, stub_compl)]
fn validation_report_contract() {
    let t = any_tri();
    let fail: u64 = kani::any();
    vk_reset(fail, 0);
    let mapping_failure: bool = kani::any();
    VK_AUX.store(mapping_failure as u64, AOrd::Relaxed);
    let r = t.validation_report();
    let bit = |c: u64| (fail >> c) & 1 == 1;
    let all_pass = !bit(C_L2REP) && !bit(C_L3) && !bit(C_COMPL);
    assert!(r.is_ok() == all_pass,
        "OBL report-iff-validate: the report is empty exactly when the structural report, Level 3 and the completion-time check all pass (the same conjunction validate() decides)");
    if all_pass {
        assert!(vk_called(C_L2REP) && vk_called(C_L3) && vk_called(C_COMPL), "OBL all-consulted: every level is consulted before an empty report is returned");
    }
    if let Err(rep) = &r {
        assert!(!rep.violations.is_empty(), "OBL nonempty-err: an Err report lists at least one violation");
        if bit(C_L2REP) && mapping_failure {
            assert!(!vk_called(C_L3), "OBL mapping-stop: with inconsistent mappings the higher levels are not run (their results would be meaningless)");
        }
    }
    kani::cover!(r.is_ok(), "COV empty report");
    kani::cover!(r.is_err() && !bit(C_L2REP) && !bit(C_L3), "COV only the completion check fails");
    core::mem::forget(r);
    core::mem::forget(t);
}

// =========================================================================================
// C15: the star query is exactly what the stored complex says (delegation contract)
// =========================================================================================
use slotmap::KeyData;
const C_STAR: u64 = 15;

fn stub_star<T, U, V, const D: usize>(_t: &Tds<T, U, V, D>, _v: VertexKey) -> CellKeySet
where U: DataType, V: DataType {
    vk_event(C_STAR);
    let mut s = CellKeySet::default();
    let n = VK_NCELLS.load(AOrd::Relaxed);
    if n >= 1 { s.insert(CellKey::from(KeyData::from_ffi(0x1_0000_0001))); }
    if n >= 2 { s.insert(CellKey::from(KeyData::from_ffi(0x1_0000_0002))); }
    s
}
/// the vertex record the triangulation holds for `v`: present or not, with or without an
/// incident-cell hint (both are legal for a vertex that sits in cells)
fn stub_get_vertex<T, U, V, const D: usize>(_t: &Tds<T, U, V, D>, _v: VertexKey) -> Option<&'static Vertex<T, U, D>>
where T: CoordinateScalar, U: DataType, V: DataType {
    match VK_AUX.load(AOrd::Relaxed) {
        0 => None,
        k => {
            let mut vx: Vertex<T, U, D> = Vertex::empty();
            if k == 2 { vx.incident_cell = Some(CellKey::from(KeyData::from_ffi(0x1_0000_0001))); }
            Some(Box::leak(Box::new(vx)))
        }
    }
}

macro_rules! adjacent_cells_instance {
    ($name:ident, $n:expr, $rec:expr) => {
        #[kani::proof]
        #[kani::unwind(6)]
        #[kani::stub(Tds::find_cells_containing_vertex_by_key, stub_star)]
        #[kani::stub(Tds::get_vertex_by_key, stub_get_vertex)]
        fn $name() {
            let t = any_tri();
            let n: usize = $n; // size of the stored star (concrete per instance: hash-set iteration)
            vk_reset(0, n);
            VK_AUX.store($rec, AOrd::Relaxed); // vertex record: 0 absent, 1 no incident-cell hint, 2 with hint
            let v = VertexKey::from(KeyData::from_ffi(0x1_0000_0007));
            let mut count = 0usize;
            let mut saw1 = false;
            let mut saw2 = false;
            for ck in t.adjacent_cells(v) {
                count += 1;
                saw1 = saw1 || ck == CellKey::from(KeyData::from_ffi(0x1_0000_0001));
                saw2 = saw2 || ck == CellKey::from(KeyData::from_ffi(0x1_0000_0002));
            }
            assert!(count == n && saw1 == (n >= 1) && saw2 == (n >= 2),
                "OBL star-is-stored-star: adjacent_cells(v) yields exactly the cells the stored complex lists for v, whatever the vertex's incident-cell hint says");
            core::mem::forget(t);
        }
    };
}
adjacent_cells_instance!(adjacent_cells_n2_nohint, 2, 1);
adjacent_cells_instance!(adjacent_cells_n2_hint, 2, 2);
adjacent_cells_instance!(adjacent_cells_n1_nohint, 1, 1);
adjacent_cells_instance!(adjacent_cells_n0_absent, 0, 0);
