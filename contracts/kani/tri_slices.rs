//! K-slices of `src/core/triangulation.rs`.
use super::*;
use crate::geometry::kernel::FastKernel;
use slotmap::KeyData;

fn stub_format(_a: core::fmt::Arguments<'_>) -> String {
    String::with_capacity(1)
}

// C05: the per-cell decision of the geometric-orientation validator (loop body of
// validate_geometric_cell_orientation): a cell passes exactly when its orientation is positive.
#[kani::proof]
#[kani::unwind(4)]
#[kani::stub(alloc::fmt::format, stub_format)]
fn orientation_decision_contract() {
    let t = Triangulation::<FastKernel<f64>, (), (), 2>::new_empty(FastKernel::new());
    let cell = crate::core::cell::verif_kani_cell_helper::dummy_cell::<f64, (), (), 2>();
    let ck = CellKey::from(KeyData::from_ffi(0x1_0000_0001));
    let orientation: i32 = kani::any();
    let r = t.verif_slice_orientation_decision(orientation, ck, &cell);
    assert!(r.is_ok() == (orientation > 0), "OBL positive-only: a cell passes the geometric-orientation check exactly when its orientation is strictly positive (flat and inverted cells are rejected)");
    kani::cover!(orientation == 0 && r.is_err(), "COV flat cell rejected");
    kani::cover!(orientation < 0 && r.is_err(), "COV inverted cell rejected");
    core::mem::forget(r);
    core::mem::forget(t);
    core::mem::forget(cell);
}
