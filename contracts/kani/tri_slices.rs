//! K-slices of `src/core/triangulation.rs`.
use super::*;
use crate::geometry::kernel::FastKernel;
use slotmap::KeyData;

fn stub_format(_a: core::fmt::Arguments<'_>) -> String {
    String::with_capacity(1)
}

// C05: the per-cell decision of the geometric-orientation validator (loop body of
// validate_geometric_cell_orientation): a cell passes exactly when its orientation is positive.
#[kani::proof]
#[kani::unwind(4)]
#[kani::stub(alloc::fmt::format, stub_format)]
fn orientation_decision_contract() {
    let t = Triangulation::<FastKernel<f64>, (), (), 2>::new_empty(FastKernel::new());
    let cell = crate::core::cell::verif_kani_cell_helper::dummy_cell::<f64, (), (), 2>();
    let ck = CellKey::from(KeyData::from_ffi(0x1_0000_0001));
    let orientation: i32 = kani::any();
    let r = t.verif_slice_orientation_decision(orientation, ck, &cell);
    assert!(r.is_ok() == (orientation > 0), "OBL positive-only: a cell passes the geometric-orientation check exactly when its orientation is strictly positive (flat and inverted cells are rejected)");
    kani::cover!(orientation == 0 && r.is_err(), "COV flat cell rejected");
    kani::cover!(orientation < 0 && r.is_err(), "COV inverted cell rejected");
    core::mem::forget(r);
    core::mem::forget(t);
    core::mem::forget(cell);
}

// C09: after a committed insertion the duplicate index files the vertex under the coordinates
// the triangulation STORES for it (which differ from the caller's when a perturbation retry
// succeeded) - K-slice of the index-update statement of insert_transactional.
use crate::core::collections::spatial_hash_grid::HashGridIndex;
use crate::core::vertex::Vertex;
use crate::geometry::point::Point;
use crate::geometry::traits::coordinate::Coordinate as _;
use core::sync::atomic::{AtomicU64, Ordering as AOrd};
static FILED_X: AtomicU64 = AtomicU64::new(0);
static FILED_Y: AtomicU64 = AtomicU64::new(0);
static FILED_N: AtomicU64 = AtomicU64::new(0);
static STORED_X: AtomicU64 = AtomicU64::new(0);
static STORED_Y: AtomicU64 = AtomicU64::new(0);

fn stub_stored_vertex<T, U, V, const D: usize>(_t: &Tds<T, U, V, D>, _v: VertexKey) -> Option<&'static Vertex<T, U, D>>
where T: CoordinateScalar, U: DataType, V: DataType {
    let mut c = [T::zero(); D];
    c[0] = <T as num_traits::NumCast>::from(f64::from_bits(STORED_X.load(AOrd::Relaxed))).unwrap_or_else(T::zero);
    if D > 1 { c[1] = <T as num_traits::NumCast>::from(f64::from_bits(STORED_Y.load(AOrd::Relaxed))).unwrap_or_else(T::zero); }
    Some(Box::leak(Box::new(Vertex::new_with_uuid(Point::new(c), uuid::Uuid::nil(), None))))
}
fn stub_index_insert<T, const D: usize, K>(_g: &mut HashGridIndex<T, D, K>, _k: K, coords: &[T; D])
where T: CoordinateScalar, K: Copy {
    FILED_N.store(1, AOrd::Relaxed);
    FILED_X.store(coords[0].to_f64().unwrap_or(f64::NAN).to_bits(), AOrd::Relaxed);
    if D > 1 { FILED_Y.store(coords[1].to_f64().unwrap_or(f64::NAN).to_bits(), AOrd::Relaxed); }
}

#[kani::proof]
#[kani::unwind(4)]
#[kani::stub(Tds::get_vertex_by_key, stub_stored_vertex)]
#[kani::stub(HashGridIndex::insert_vertex, stub_index_insert)]
fn index_update_uses_stored_coords_contract() {
    let t = Triangulation::<FastKernel<f64>, (), (), 2>::new_empty(FastKernel::new());
    let (sx, sy, ox, oy): (f64, f64, f64, f64) = (kani::any(), kani::any(), kani::any(), kani::any());
    kani::assume(sx.is_finite() && sy.is_finite() && ox.is_finite() && oy.is_finite());
    STORED_X.store(sx.to_bits(), AOrd::Relaxed);
    STORED_Y.store(sy.to_bits(), AOrd::Relaxed);
    FILED_N.store(0, AOrd::Relaxed);
    let mut grid: HashGridIndex<f64, 2> = HashGridIndex::new(1e-10);
    let vk = VertexKey::from(KeyData::from_ffi(0x1_0000_0003));
    let original_coords = [ox, oy];
    t.verif_slice_index_update(Some(&mut grid), vk, original_coords);
    assert!(FILED_N.load(AOrd::Relaxed) == 1, "OBL index-updated: a committed insertion is recorded in the duplicate index");
    assert!(FILED_X.load(AOrd::Relaxed) == sx.to_bits() && FILED_Y.load(AOrd::Relaxed) == sy.to_bits(),
        "OBL filed-under-stored-coords: the vertex is filed under the coordinates the triangulation stores for it (not the caller's, which differ after a perturbation retry)");
    kani::cover!(sx != ox, "COV stored differs from requested");
    core::mem::forget(grid);
    core::mem::forget(t);
}
