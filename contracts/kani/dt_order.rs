//! Contracts for `src/core/delaunay_triangulation.rs`: ordering strategies, Morton code,
//! shuffle seed and the private dedup fallbacks (C14 / C17).
use super::*;
use crate::geometry::point::Point;
use crate::geometry::traits::coordinate::Coordinate as _;
use core::sync::atomic::{AtomicU64, Ordering as AOrd};

// =========================================================================================
// C14 / C17: ordering strategies - permutation, and independence of the caller's order
// =========================================================================================
use crate::core::util::hilbert::HilbertError;
static Q_TABLE: AtomicU64 = AtomicU64::new(0); // quantised cell of vertex A (low 32) and B (high 32)
static A_BITS: AtomicU64 = AtomicU64::new(0);

/// CONTRACT of hilbert_quantize: the grid cell is a function of the coordinates alone
/// (which cell is arbitrary - two distinct points may share one).
fn stub_quantize<T: CoordinateScalar, const D: usize>(coords: &[T; D], _b: (T, T), _bits: u32) -> Result<[u32; D], HilbertError> {
    let is_a = coords[0].to_f64().map(f64::to_bits) == Some(A_BITS.load(AOrd::Relaxed));
    let t = Q_TABLE.load(AOrd::Relaxed);
    let q = if is_a { t as u32 } else { (t >> 32) as u32 };
    Ok([q; D])
}
/// CONTRACT of hilbert_indices_prequantized: the index is a function of the grid cell alone
/// (injective on cells - proved by the hilbert.* units).
fn stub_indices<const D: usize>(quantized: &[[u32; D]], _bits: u32) -> Result<Vec<u128>, HilbertError> {
    let mut out = Vec::with_capacity(quantized.len().max(1));
    let mut i = 0;
    while i < quantized.len() && i < 3 {
        out.push(quantized[i][0] as u128);
        i += 1;
    }
    Ok(out)
}
fn vtx2(x: f64, y: f64, id: u8) -> Vertex<f64, u8, 2> {
    Vertex::new_with_uuid(Point::new([x, y]), Uuid::nil(), Some(id))
}
fn vid(v: &Vertex<f64, u8, 2>) -> u8 {
    match v.data { Some(d) => d, None => 255 }
}

#[kani::proof]
#[kani::unwind(4)]
#[kani::stub(crate::core::util::hilbert::hilbert_quantize, stub_quantize)]
#[kani::stub(crate::core::util::hilbert::hilbert_indices_prequantized, stub_indices)]
fn hilbert_order_independent_contract() {
    let (xa, ya, xb, yb): (f64, f64, f64, f64) = (kani::any(), kani::any(), kani::any(), kani::any());
    kani::assume(xa.is_finite() && ya.is_finite() && xb.is_finite() && yb.is_finite());
    // distinct coordinate tuples (as the ordering sees them); first coordinates distinct so the stub can tell them apart
    kani::assume(xa != xb);
    A_BITS.store(xa.to_bits(), AOrd::Relaxed);
    Q_TABLE.store(kani::any(), AOrd::Relaxed);
    let o1 = order_vertices_hilbert(vec![vtx2(xa, ya, 0), vtx2(xb, yb, 1)]);
    let o2 = order_vertices_hilbert(vec![vtx2(xb, yb, 1), vtx2(xa, ya, 0)]);
    assert!(o1.len() == 2 && o2.len() == 2, "OBL hilbert-length: ordering keeps the number of vertices");
    assert!(vid(&o1[0]) != vid(&o1[1]) && vid(&o1[0]) < 2 && vid(&o1[1]) < 2, "OBL hilbert-permutation: the ordering is a permutation of its input");
    assert!(vid(&o1[0]) == vid(&o2[0]) && vid(&o1[1]) == vid(&o2[1]),
        "OBL hilbert-order-free: for distinct coordinates the Hilbert ordering does not depend on the order in which the caller listed the vertices (ties in the curve index are broken by coordinates, not by input position)");
    kani::cover!((Q_TABLE.load(AOrd::Relaxed) as u32) == ((Q_TABLE.load(AOrd::Relaxed) >> 32) as u32), "COV two distinct points in one grid cell");
    core::mem::forget(o1);
    core::mem::forget(o2);
}

#[kani::proof]
#[kani::unwind(4)]
fn lexicographic_order_independent_contract() {
    let (xa, ya, xb, yb): (f64, f64, f64, f64) = (kani::any(), kani::any(), kani::any(), kani::any());
    kani::assume(!(xa == xb && ya == yb) && !(xa.is_nan() && xb.is_nan() && (ya == yb || (ya.is_nan() && yb.is_nan()))) && !(ya.is_nan() && yb.is_nan() && xa == xb));
    let o1 = order_vertices_lexicographic(vec![vtx2(xa, ya, 0), vtx2(xb, yb, 1)]);
    let o2 = order_vertices_lexicographic(vec![vtx2(xb, yb, 1), vtx2(xa, ya, 0)]);
    assert!(o1.len() == 2 && o2.len() == 2 && vid(&o1[0]) != vid(&o1[1]) && vid(&o1[0]) < 2 && vid(&o1[1]) < 2, "OBL lex-permutation: the ordering is a permutation of its input");
    assert!(vid(&o1[0]) == vid(&o2[0]) && vid(&o1[1]) == vid(&o2[1]),
        "OBL lex-order-free: for distinct coordinates (NaN and infinities included) the lexicographic ordering does not depend on the caller's order");
    core::mem::forget(o1);
    core::mem::forget(o2);
}

// construction_shuffle_seed is a function of the SET of vertices (N <= 3)
#[kani::proof]
#[kani::unwind(5)]
fn shuffle_seed_order_free_contract() {
    let c: [f64; 6] = kani::any();
    let (a, b, d) = (vtx2(c[0], c[1], 0), vtx2(c[2], c[3], 1), vtx2(c[4], c[5], 2));
    type DtU8 = DelaunayTriangulation<FastKernel<f64>, u8, (), 2>;
    let s_abc = DtU8::construction_shuffle_seed(&[a, b, d]);
    let s_bca = DtU8::construction_shuffle_seed(&[b, d, a]);
    let s_cab = DtU8::construction_shuffle_seed(&[d, a, b]);
    let s_bac = DtU8::construction_shuffle_seed(&[b, a, d]);
    assert!(s_abc == s_bca && s_abc == s_cab && s_abc == s_bac, "OBL seed-order-free: the construction shuffle seed is the same for every order of the same three vertices");
    let t_ab = DtU8::construction_shuffle_seed(&[a, b]);
    let t_ba = DtU8::construction_shuffle_seed(&[b, a]);
    assert!(t_ab == t_ba, "OBL seed-order-free-2: and for every order of two vertices");
}

// Morton code: injective on D coordinates of bits_per_coord bits (D = 2..5)
macro_rules! morton_instance {
    ($name:ident, $d:expr, $unw:expr) => {
        #[kani::proof]
        #[kani::unwind($unw)]
        fn $name() {
            const D: usize = $d;
            let bits = morton_bits_per_coord::<D>().unwrap();
            assert!(bits == 64 / ($d as u32), "OBL morton-bits: bits per coordinate is 64 / D");
            let a: [u64; D] = kani::any();
            let b: [u64; D] = kani::any();
            let mut same = true;
            let mut i = 0;
            while i < D {
                kani::assume(a[i] < (1u64 << bits) && b[i] < (1u64 << bits));
                same = same && a[i] == b[i];
                i += 1;
            }
            let (ca, cb) = (morton_code::<D>(a, bits), morton_code::<D>(b, bits));
            assert!((ca == cb) == same, "OBL morton-injective: equal Morton codes exactly for equal quantised coordinates");
        }
    };
}
morton_instance!(morton_d2, 2, 34);
morton_instance!(morton_d3, 3, 23);
morton_instance!(morton_d4, 4, 18);
morton_instance!(morton_d5, 5, 14);

// =========================================================================================
// C17: private dedup paths - fallbacks hand the WHOLE remaining input to the slower path
// =========================================================================================
static N2_SEEN: AtomicU64 = AtomicU64::new(0); // ids received by the n^2 path, 4 bits each, first in the low nibble + length in the top byte
fn stub_quantize_none<T: CoordinateScalar, const D: usize>(_c: &[T; D], _inv: f64) -> Option<[i64; D]> {
    None
}
fn stub_n2<T, U, const D: usize>(vertices: Vec<Vertex<T, U, D>>, _eps: T) -> Vec<Vertex<T, U, D>>
where T: CoordinateScalar, U: DataType {
    let mut seen: u64 = (vertices.len() as u64) << 56;
    let mut i = 0;
    while i < vertices.len() && i < 4 {
        let id = vertices[i].point().coords()[0].to_f64().unwrap_or(15.0) as u64;
        seen |= (id & 0xf) << (4 * i);
        i += 1;
    }
    N2_SEEN.store(seen, AOrd::Relaxed);
    vertices
}
fn vtx1(id: u8) -> Vertex<f64, u8, 2> {
    vtx2(id as f64, 0.5, id)
}

#[kani::proof]
#[kani::unwind(6)]
#[kani::stub(quantize_coords, stub_quantize_none)]
#[kani::stub(dedup_vertices_epsilon_n2, stub_n2)]
fn quantized_fallback_contract() {
    N2_SEEN.store(0, AOrd::Relaxed);
    let out = dedup_vertices_epsilon_quantized(vec![vtx1(1), vtx1(2), vtx1(3)], 1e-10);
    let seen = N2_SEEN.load(AOrd::Relaxed);
    assert!((seen >> 56) == 3 && (seen & 0xfff) == 0x321,
        "OBL fallback-complete: when a vertex cannot be bucketed, the n^2 path receives ALL the input (survivors so far, the offending vertex, the rest) in order - no vertex is lost");
    assert!(out.len() == 3, "OBL fallback-result: the result is what the n^2 path returns");
    core::mem::forget(out);
}

/// smaller instances of the same contract (the 3-vertex instance makes CBMC abort in the
/// propositional reduction: > 40 GB for the chained `collect`)
#[kani::proof]
#[kani::unwind(6)]
#[kani::stub(quantize_coords, stub_quantize_none)]
#[kani::stub(dedup_vertices_epsilon_n2, stub_n2)]
fn quantized_fallback_n2_contract() {
    N2_SEEN.store(0, AOrd::Relaxed);
    let out = dedup_vertices_epsilon_quantized(vec![vtx1(1), vtx1(2)], 1e-10);
    let seen = N2_SEEN.load(AOrd::Relaxed);
    assert!((seen >> 56) == 2 && (seen & 0xff) == 0x21,
        "OBL fallback-complete: when a vertex cannot be bucketed, the n^2 path receives ALL the input (the offending vertex and the rest) in order - no vertex is lost");
    assert!(out.len() == 2, "OBL fallback-result: the result is what the n^2 path returns");
    core::mem::forget(out);
}
#[kani::proof]
#[kani::unwind(6)]
#[kani::stub(quantize_coords, stub_quantize_none)]
#[kani::stub(dedup_vertices_epsilon_n2, stub_n2)]
fn quantized_fallback_n1_contract() {
    N2_SEEN.store(0, AOrd::Relaxed);
    let out = dedup_vertices_epsilon_quantized(vec![vtx1(1)], 1e-10);
    let seen = N2_SEEN.load(AOrd::Relaxed);
    assert!((seen >> 56) == 1 && (seen & 0xf) == 0x1,
        "OBL fallback-complete: when a vertex cannot be bucketed, the n^2 path receives ALL the input (the offending vertex and the rest) in order - no vertex is lost");
    assert!(out.len() == 1, "OBL fallback-result: the result is what the n^2 path returns");
    core::mem::forget(out);
}
