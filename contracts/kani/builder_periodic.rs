//! K-slices of `DelaunayTriangulationBuilder::build_periodic` (C16): the grid snap + bounded
//! perturbation of a canonical coordinate must stay inside the half-open period [0, L).
use super::*;

const MAX_OFF: i64 = 1_048_576; // == MAX_OFFSET_UNITS (asserted below against the real constant)

/// perturb_units(canon_idx, axis) is within [-MAX_OFFSET_UNITS, MAX_OFFSET_UNITS] for EVERY index and axis
#[kani::proof]
fn perturb_units_range_contract() {
    let c: usize = kani::any();
    let a: usize = kani::any();
    let p = DelaunayTriangulationBuilder::<f64, (), 1>::verif_slice_perturb_units(c, a);
    assert!(MAX_OFF == MAX_OFFSET_UNITS, "OBL constant: the contract's bound is the code's MAX_OFFSET_UNITS");
    assert!(-MAX_OFFSET_UNITS <= p && p <= MAX_OFFSET_UNITS, "OBL perturbation-range: |perturb_units| <= MAX_OFFSET_UNITS for every (index, axis)");
    kani::cover!(p == MAX_OFFSET_UNITS, "COV upper end reached");
    kani::cover!(p < 0, "COV negative perturbation");
}

// The per-axis snap of a canonical coordinate is proved in three steps (one symbolic float
// division / multiplication each at most; the whole loop body in one query ran into the 25 min cap):
//   front: whatever the quotient x / L is (not NaN), the grid index u is in [0, 2^52 - 1]
//   clamp: for every such u and every perturbation in range, u + off is in [0, 2^52 - 1]
//   back : for every grid index a in [0, 2^52 - 1] and every normal L > 0, (a / 2^52) * L is in [0, L)
const TWO52: i64 = 4_503_599_627_370_496;

#[kani::proof]
fn periodic_snap_front_contract() {
    let q: f64 = kani::any();
    kani::assume(!q.is_nan());
    // domain_i = 1.0: orig / 1.0 == orig exactly, so `orig` ranges over every possible quotient
    let u = DelaunayTriangulationBuilder::<f64, (), 1>::verif_slice_periodic_snap_front(q, 1.0);
    kani::cover!(u == TWO52 - 1, "COV last grid cell");
    kani::cover!(u == 0, "COV first grid cell");
    assert!(TWO52 == TWO_POW_52_I64, "OBL constant: the contract's 2^52 is the code's");
    assert!(0 <= u && u <= TWO52 - 1, "OBL grid-index-range: the grid index of a canonical coordinate is in [0, 2^52 - 1] whatever the quotient (no `expect` fires)");
}

#[kani::proof]
fn periodic_snap_clamp_contract() {
    let u: i64 = kani::any();
    let p: i64 = kani::any();
    kani::assume(0 <= u && u <= TWO52 - 1);
    kani::assume(-MAX_OFF <= p && p <= MAX_OFF);
    let f = move |_c: usize, _a: usize| -> i64 { p };
    let a = DelaunayTriangulationBuilder::<f64, (), 1>::verif_slice_periodic_snap_clamp(u, kani::any(), 0, &f);
    kani::cover!(u == TWO52 - 1 && p == MAX_OFF, "COV upper clamp active");
    kani::cover!(u == 0 && p == -MAX_OFF, "COV lower clamp active");
    kani::cover!(u == TWO52 / 2 && a == (u + p) as f64 && p != 0, "COV unclamped perturbation");
    assert!(a >= 0.0 && a <= (TWO52 - 1) as f64, "OBL perturbed-index-range: the perturbed grid index stays in [0, 2^52 - 1] (the stored coordinate can never reach L)");
    assert!((a - u as f64).abs() <= MAX_OFF as f64, "OBL perturbation-bounded: the perturbation moves the index by at most MAX_OFFSET_UNITS");
}

/// worst case of the last step: the LAST grid cell (a = 2^52 - 1), every normal period L > 0.
/// Smaller indices follow because IEEE multiplication by a positive L is monotone in the other
/// operand (round-to-nearest is monotone) - that step is by reading, see `assumed`.
#[kani::proof]
fn periodic_snap_back_contract() {
    let l: f64 = kani::any();
    kani::assume(l.is_normal() && l > 0.0);
    let a = (TWO52 - 1) as f64;
    let out = DelaunayTriangulationBuilder::<f64, (), 1>::verif_slice_periodic_snap_back(a, l, 0, [0.0]);
    kani::cover!(l == 1.0, "COV unit period");
    kani::cover!(l > 1.0e300, "COV huge period");
    assert!(out[0] >= 0.0, "OBL stored-nonnegative: the stored coordinate is >= 0");
    assert!(out[0] < l, "OBL stored-below-period: the stored coordinate of the last grid cell is strictly below L for every period (half-open box)");
}
/// every grid index, unit period (the common case): exact arithmetic, no rounding involved
#[kani::proof]
fn periodic_snap_back_unit_contract() {
    let a: u64 = kani::any();
    kani::assume(a <= (TWO52 - 1) as u64);
    let out = DelaunayTriangulationBuilder::<f64, (), 1>::verif_slice_periodic_snap_back(a as f64, 1.0, 0, [0.0]);
    kani::cover!(a == (TWO52 - 1) as u64, "COV last grid cell");
    assert!(out[0] >= 0.0 && out[0] < 1.0, "OBL stored-in-unit-box: for L = 1 every grid index is stored inside [0, 1)");
}
