//! K-slices of `DelaunayTriangulationBuilder::build_periodic` (C16): the grid snap + bounded
//! perturbation of a canonical coordinate must stay inside the half-open period [0, L).
use super::*;

const MAX_OFF: i64 = 1_048_576; // == MAX_OFFSET_UNITS (asserted below against the real constant)

/// perturb_units(canon_idx, axis) is within [-MAX_OFFSET_UNITS, MAX_OFFSET_UNITS] for EVERY index and axis
#[kani::proof]
fn perturb_units_range_contract() {
    let c: usize = kani::any();
    let a: usize = kani::any();
    let p = DelaunayTriangulationBuilder::<f64, (), 1>::verif_slice_perturb_units(c, a);
    assert!(MAX_OFF == MAX_OFFSET_UNITS, "OBL constant: the contract's bound is the code's MAX_OFFSET_UNITS");
    assert!(-MAX_OFFSET_UNITS <= p && p <= MAX_OFFSET_UNITS, "OBL perturbation-range: |perturb_units| <= MAX_OFFSET_UNITS for every (index, axis)");
    kani::cover!(p == MAX_OFFSET_UNITS, "COV upper end reached");
    kani::cover!(p < 0, "COV negative perturbation");
}

/// one axis of the snap: for every period L (normal, > 0), every canonical coordinate x in
/// [0, L) and every perturbation in range, the stored coordinate is in [0, L)
#[kani::proof]
#[kani::unwind(3)]
fn periodic_snap_contract() {
    let l: f64 = kani::any();
    let x: f64 = kani::any();
    let p: i64 = kani::any();
    kani::assume(l.is_normal() && l > 0.0);
    kani::assume(x >= 0.0 && x < l);
    kani::assume(-MAX_OFF <= p && p <= MAX_OFF);
    let f = move |_c: usize, _a: usize| -> i64 { p };
    let out = DelaunayTriangulationBuilder::<f64, (), 1>::verif_slice_periodic_snap([l], &[x], 0, &f);
    kani::cover!(p == MAX_OFF && x > l * 0.999_999_999_9, "COV upper clamp active");
    kani::cover!(p == -MAX_OFF && x == 0.0, "COV lower clamp active");
    assert!(out[0] >= 0.0, "OBL snapped-nonnegative: the stored coordinate is >= 0");
    assert!(out[0] < l, "OBL snapped-below-period: the stored coordinate is strictly below L (half-open box)");
}
