//! C09: the lazily re-seeded duplicate index (`ensure_spatial_index_seeded`).
use super::*;

#[kani::proof]
#[kani::unwind(5)]
fn reseeded_index_contract() {
    let mut dt = DelaunayTriangulation::<FastKernel<f64>, (), (), 2>::empty();
    dt.spatial_index = None; // dropped by an Edit-API call / mutable access / deserialisation
    dt.ensure_spatial_index_seeded();
    match &dt.spatial_index {
        Some(idx) => {
            assert!(idx.is_usable(), "OBL reseeded-usable: the re-seeded index is usable");
            // insert_transactional refuses points within 1e-10 of a present vertex and only looks at the
            // 3^D grid cells around the query: the cell size must be (at least) that tolerance
            assert!(idx.cell_size() >= 1e-10, "OBL reseeded-cell-covers-tolerance: the re-seeded grid's cell size is at least the duplicate tolerance (1e-10), so the one-cell neighbourhood the duplicate check looks at covers the tolerance ball");
            assert!(idx.cell_size() == 1e-10, "OBL reseeded-same-as-fresh: ... and equals the cell size of the index a fresh triangulation starts with");
        }
        None => assert!(false, "OBL reseeded-some: after seeding an index exists"),
    }
    // an existing index is left alone
    let fresh = DelaunayTriangulation::<FastKernel<f64>, (), (), 2>::empty();
    assert!(fresh.spatial_index.as_ref().map(|i| i.cell_size()) == Some(1e-10), "OBL fresh-cell-size: a fresh triangulation's index uses the duplicate tolerance as cell size");
    core::mem::forget(dt);
    core::mem::forget(fresh);
}
