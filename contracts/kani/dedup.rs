//! Contracts for `src/core/util/deduplication.rs`.
//!
//! The duplicate RELATION (`coords_equal_exact`, `coords_within_epsilon`) is replaced by an
//! arbitrary symmetric relation table indexed by vertex identity (vertex i has coordinate
//! [i as f64] and data Some(i)); the obligations then say that each dedup function is exactly
//! the greedy filter under that relation, for EVERY relation - which implies: the output is a
//! subsequence of the input (nothing invented or duplicated), no two survivors are related,
//! and every dropped vertex is related to an earlier survivor.
use super::*;
use crate::geometry::point::Point;
use crate::geometry::traits::coordinate::Coordinate as _;
use core::sync::atomic::{AtomicU64, Ordering as AOrd};

static REL: AtomicU64 = AtomicU64::new(0);
const W: usize = 8;

fn rel(i: usize, j: usize) -> bool {
    let (a, b) = if i <= j { (i, j) } else { (j, i) };
    (REL.load(AOrd::Relaxed) >> (a * W + b)) & 1 == 1
}
fn id_of<const D: usize>(c: &[f64; D]) -> usize {
    c[0] as usize
}
fn rel_exact<T: CoordinateScalar, const D: usize>(a: &[T; D], b: &[T; D]) -> bool {
    rel(a[0].to_f64().unwrap_or(0.0) as usize, b[0].to_f64().unwrap_or(0.0) as usize)
}
fn rel_eps<T: CoordinateScalar, const D: usize>(a: &[T; D], b: &[T; D], _e: T) -> bool {
    rel(a[0].to_f64().unwrap_or(0.0) as usize, b[0].to_f64().unwrap_or(0.0) as usize)
}
fn mk(i: usize) -> Vertex<f64, u8, 1> {
    Vertex::new_with_uuid(Point::new([i as f64]), uuid::Uuid::nil(), Some(i as u8))
}
fn ident(v: &Vertex<f64, u8, 1>) -> usize {
    match v.data { Some(d) => d as usize, None => usize::MAX }
}

macro_rules! greedy_check_exact {
    ($out:expr, $n:expr, $relfn:expr) => {{
        let out = &$out;
        const N: usize = $n;
        assert!(out.len() <= N, "OBL exact-no-growth: the output is never longer than the input");
        let mut pos = [usize::MAX; N];
        let mut k = 0;
        while k < N {
            if k < out.len() {
                let id = ident(&out[k]);
                assert!(id < N, "OBL exact-no-invention: every output vertex is an input vertex (same data)");
                assert!(id_of(out[k].point().coords()) == id && out[k].uuid().is_nil(), "OBL exact-intact: coordinates and UUID of a survivor are untouched");
                assert!(pos[id % N] == usize::MAX, "OBL exact-no-duplication: no input vertex appears twice");
                pos[id % N] = k;
            }
            k += 1;
        }
        let mut kept = [false; N];
        let mut i = 0;
        while i < N {
            let mut blocked = false;
            let mut j = 0;
            while j < i {
                blocked = blocked || (kept[j] && $relfn(i, j));
                j += 1;
            }
            kept[i] = !blocked;
            i += 1;
        }
        let mut i = 0;
        let mut next = 0;
        while i < N {
            assert!((pos[i] != usize::MAX) == kept[i], "OBL exact-greedy: a vertex survives exactly when it is unrelated to every earlier survivor (=> survivors pairwise unrelated, every dropped vertex related to an earlier survivor)");
            if kept[i] {
                assert!(pos[i] == next, "OBL exact-order: survivors keep their input order");
                next += 1;
            }
            i += 1;
        }
    }};
}

macro_rules! greedy_check_epsilon {
    ($out:expr, $n:expr, $relfn:expr) => {{
        let out = &$out;
        const N: usize = $n;
        assert!(out.len() <= N, "OBL epsilon-no-growth: the output is never longer than the input");
        let mut pos = [usize::MAX; N];
        let mut k = 0;
        while k < N {
            if k < out.len() {
                let id = ident(&out[k]);
                assert!(id < N, "OBL epsilon-no-invention: every output vertex is an input vertex (same data)");
                assert!(id_of(out[k].point().coords()) == id && out[k].uuid().is_nil(), "OBL epsilon-intact: coordinates and UUID of a survivor are untouched");
                assert!(pos[id % N] == usize::MAX, "OBL epsilon-no-duplication: no input vertex appears twice");
                pos[id % N] = k;
            }
            k += 1;
        }
        let mut kept = [false; N];
        let mut i = 0;
        while i < N {
            let mut blocked = false;
            let mut j = 0;
            while j < i {
                blocked = blocked || (kept[j] && $relfn(i, j));
                j += 1;
            }
            kept[i] = !blocked;
            i += 1;
        }
        let mut i = 0;
        let mut next = 0;
        while i < N {
            assert!((pos[i] != usize::MAX) == kept[i], "OBL epsilon-greedy: a vertex survives exactly when it is unrelated to every earlier survivor (=> survivors pairwise unrelated, every dropped vertex related to an earlier survivor)");
            if kept[i] {
                assert!(pos[i] == next, "OBL epsilon-order: survivors keep their input order");
                next += 1;
            }
            i += 1;
        }
    }};
}

macro_rules! dedup_instance {
    ($name:ident, $n:expr) => {
        #[kani::proof]
        #[kani::unwind(7)]
        #[kani::stub(coords_equal_exact, rel_exact)]
        #[kani::stub(coords_within_epsilon, rel_eps)]
        fn $name() {
            const N: usize = $n;
            REL.store(kani::any(), AOrd::Relaxed);
            let mut input: Vec<Vertex<f64, u8, 1>> = Vec::with_capacity(N);
            let mut i = 0;
            while i < N {
                input.push(mk(i));
                i += 1;
            }
            let which: u8 = kani::any();
            if which % 3 == 0 {
                let out = dedup_vertices_exact(&input);
                greedy_check_exact!(out, $n, rel);
                core::mem::forget(out);
            } else if which % 3 == 1 {
                let out = dedup_vertices_epsilon(&input, 0.5);
                greedy_check_epsilon!(out, $n, rel);
                core::mem::forget(out);
            } else {
                // filter_vertices_excluding(v, reference): keep exactly the vertices unrelated to every reference vertex
                let reference: Vec<Vertex<f64, u8, 1>> = vec![mk(W - 1)];
                let out = filter_vertices_excluding(&input, &reference);
                let mut k = 0;
                let mut next = 0;
                while k < N {
                    let keep = !rel(k, W - 1);
                    if keep {
                        assert!(next < out.len() && ident(&out[next % N.max(1)]) == k, "OBL filter-exact: filter_vertices_excluding keeps, in order, exactly the vertices unrelated to every reference vertex");
                        next += 1;
                    }
                    k += 1;
                }
                assert!(out.len() == next, "OBL filter-nothing-else: nothing else is kept");
                core::mem::forget(out);
                core::mem::forget(reference);
            }
            core::mem::forget(input);
        }
    };
}
dedup_instance!(dedup_n3, 3);
dedup_instance!(dedup_n4, 4);
dedup_instance!(dedup_n2, 2);
