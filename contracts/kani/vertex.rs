//! Contracts for `src/core/vertex.rs` (and through it `Point` comparators / validation).
use super::*;
use crate::geometry::point::Point;
use crate::geometry::traits::coordinate::Coordinate;
use std::cmp::Ordering;

fn stub_format(_a: core::fmt::Arguments<'_>) -> String {
    String::with_capacity(1)
}

fn any_uuid() -> Uuid {
    Uuid::from_u128(kani::any())
}

/// total-order key of the crate's OrderedFloat semantics, written independently:
/// all NaN are equal and greater than everything; -0.0 == +0.0.
fn ord_eq(a: f64, b: f64) -> bool {
    (a.is_nan() && b.is_nan()) || a == b
}
fn ord_lt(a: f64, b: f64) -> bool {
    (!a.is_nan() && b.is_nan()) || a < b
}

macro_rules! cmp_instance {
    ($name:ident, $d:expr) => {
        // C14: the ordering key of a vertex is a function of its coordinates alone, and is a
        // total order on coordinate tuples - so the input-index tie-break of the ordering
        // strategies is reached only for coordinate-equal vertices.
        #[kani::proof]
        #[kani::unwind(6)]
        fn $name() {
            const D: usize = $d;
            let ca: [f64; D] = kani::any();
            let cb: [f64; D] = kani::any();
            let cc: [f64; D] = kani::any();
            let (pa, pb, pc) = (Point::new(ca), Point::new(cb), Point::new(cc));
            let ab = pa.partial_cmp(&pb);
            let ba = pb.partial_cmp(&pa);
            let bc = pb.partial_cmp(&pc);
            let ac = pa.partial_cmp(&pc);
            assert!(ab.is_some(), "OBL total: partial_cmp never returns None (NaN, infinities, signed zeros included)");
            // lexicographic spec
            let mut i = 0;
            let mut spec = Ordering::Equal;
            while i < D {
                if spec == Ordering::Equal {
                    if ord_lt(ca[i], cb[i]) { spec = Ordering::Less; } else if !ord_eq(ca[i], cb[i]) { spec = Ordering::Greater; }
                }
                i += 1;
            }
            assert!(ab == Some(spec), "OBL lexicographic: partial_cmp is the lexicographic order of the coordinates under ordered-float comparison");
            assert!(ab.map(Ordering::reverse) == ba, "OBL antisymmetric: cmp(a,b) is the reverse of cmp(b,a)");
            if ab == Some(Ordering::Less) && bc == Some(Ordering::Less) {
                assert!(ac == Some(Ordering::Less), "OBL transitive: a < b and b < c imply a < c");
            }
            if ab == Some(Ordering::Equal) && bc == Some(Ordering::Equal) {
                assert!(ac == Some(Ordering::Equal), "OBL transitive-eq: equality is transitive");
            }
            assert!((ab == Some(Ordering::Equal)) == (pa == pb), "OBL eq-consistent: Equal exactly when the points compare equal");
            // vertices: UUID, data and incident cell do not take part in comparison or equality
            let va: Vertex<f64, u8, D> = Vertex::new_with_uuid(pa, any_uuid(), if kani::any() { Some(kani::any()) } else { None });
            let vb: Vertex<f64, u8, D> = Vertex::new_with_uuid(pb, any_uuid(), if kani::any() { Some(kani::any()) } else { None });
            assert!(va.partial_cmp(&vb) == ab, "OBL vertex-cmp-coords-only: vertex ordering ignores UUID and data");
            assert!((va == vb) == (pa == pb), "OBL vertex-eq-coords-only: vertex equality ignores UUID and data");
            kani::cover!(ab == Some(Ordering::Equal) && ca[0].to_bits() != cb[0].to_bits(), "COV equal with different bits (signed zero / NaN payload)");
            kani::cover!(ab == Some(Ordering::Less), "COV less");
        }
    };
}
cmp_instance!(point_order_d2, 2);
cmp_instance!(point_order_d3, 3);

macro_rules! valid_instance {
    ($name:ident, $d:expr) => {
        // C05 (element level) / C19: a vertex is valid exactly when every coordinate is finite
        // and its UUID is a non-nil version-4 UUID.
        #[kani::proof]
        #[kani::unwind(7)]
        #[kani::stub(alloc::fmt::format, stub_format)]
        fn $name() {
            const D: usize = $d;
            let c: [f64; D] = kani::any();
            let u = any_uuid();
            let v: Vertex<f64, (), D> = Vertex::new_with_uuid(Point::new(c), u, None);
            let mut finite = true;
            let mut i = 0;
            while i < D {
                finite = finite && c[i].is_finite();
                i += 1;
            }
            let bytes = u.as_u128();
            let version = (bytes >> 76) & 0xf;
            let uuid_ok = bytes != 0 && version == 4;
            let pr = Coordinate::validate(v.point());
            assert!(pr.is_ok() == finite, "OBL point-finite: Point::validate is Ok exactly when every coordinate is finite");
            core::mem::forget(pr);
            let ur = crate::core::util::validate_uuid(&u);
            assert!(ur.is_ok() == uuid_ok, "OBL uuid-v4: validate_uuid is Ok exactly for non-nil version-4 UUIDs (all 2^128 values)");
            let r = v.is_valid();
            assert!(r.is_ok() == (finite && uuid_ok), "OBL vertex-valid: Vertex::is_valid is Ok exactly when coordinates are finite and the UUID is valid");
            kani::cover!(r.is_ok(), "COV valid vertex");
            kani::cover!(!finite && uuid_ok, "COV non-finite rejected");
            kani::cover!(finite && !uuid_ok, "COV bad uuid rejected");
            core::mem::forget(r);
        }
    };
}
valid_instance!(vertex_valid_d2, 2);
valid_instance!(vertex_valid_d3, 3);
valid_instance!(vertex_valid_d5, 5);
