//! Contracts for `src/topology/characteristics/euler.rs`.
use super::*;

macro_rules! euler_instance {
    ($name:ident, $len:expr) => {
        // C15: chi == sum_k (-1)^k f_k for EVERY f-vector of this length (entries < 2^40)
        #[kani::proof]
        #[kani::unwind(9)]
        fn $name() {
            const N: usize = $len;
            let f: [usize; N] = kani::any();
            let mut v: Vec<usize> = Vec::with_capacity(N);
            let mut spec: i128 = 0;
            let mut k = 0;
            while k < N {
                kani::assume(f[k] < (1usize << 40));
                v.push(f[k]);
                spec += if k % 2 == 0 { f[k] as i128 } else { -(f[k] as i128) };
                k += 1;
            }
            let counts = FVector { by_dim: v };
            let chi = euler_characteristic(&counts);
            assert!(chi as i128 == spec, "OBL alternating-sum: euler_characteristic == sum over k of (-1)^k f_k");
            if N == 3 {
                assert!(chi == (f[0] as isize) - (f[1] as isize) + (f[2 % N] as isize), "OBL v-e-f: in 2-D chi == V - E + F");
            }
            kani::cover!(chi < 0 || N < 2, "COV negative chi");
            kani::cover!(chi == 1, "COV chi of a ball");
            core::mem::forget(counts);
        }
    };
}
euler_instance!(euler_len1, 1);
euler_instance!(euler_len2, 2);
euler_instance!(euler_len3, 3);
euler_instance!(euler_len4, 4);
euler_instance!(euler_len5, 5);
euler_instance!(euler_len6, 6);
