//! K-slice of `Triangulation::insert_transactional` (C16): the `let vertex = if <periodic> { .. }
//! else { vertex };` statement at the top of the function - what happens to the vertex before the
//! insertion engine sees it.  In a triangulation whose global topology is toroidal a vertex
//! inserted later must be wrapped into the fundamental domain like the vertices the builder
//! wrapped (F9).  (A slice of the whole prefix has the function's return type, whose
//! `InsertionError` does not fit in CBMC: timeout at 20 min.)
use super::*;
use crate::geometry::kernel::FastKernel;
use crate::geometry::point::Point;
use crate::geometry::traits::coordinate::Coordinate as _;
use crate::topology::traits::topological_space::{GlobalTopology, ToroidalConstructionMode};

/// ASSUMED CONTRACT of `f64::rem_euclid` (same text as contracts/kani/toroidal.rs; the wrapping
/// functions themselves are proved against it by the toroidal.* / canon_model.* units)
fn rem_euclid_contract(x: f64, p: f64) -> f64 {
    if x.is_finite() && p.is_finite() && p > 0.0 {
        if x >= 0.0 && x < p {
            return x;
        }
        let r: f64 = kani::any();
        kani::assume(r >= 0.0 && r <= p);
        r
    } else {
        kani::any()
    }
}
fn stub_format(_a: core::fmt::Arguments<'_>) -> String { String::with_capacity(1) }

#[kani::proof]
#[kani::unwind(4)]
#[kani::stub(f64::rem_euclid, rem_euclid_contract)]
#[kani::stub(alloc::fmt::format, stub_format)]
fn later_insert_wrapped_contract() {
    let mut tri = Triangulation::<FastKernel<f64>, (), (), 2>::new_empty(FastKernel::new());
    let l: [f64; 2] = [kani::any(), kani::any()];
    kani::assume(l[0].is_finite() && l[0] > 0.0 && l[1].is_finite() && l[1] > 0.0);
    let toroidal: bool = kani::any();
    if toroidal {
        let mode = if kani::any() { ToroidalConstructionMode::Canonicalized } else { ToroidalConstructionMode::PeriodicImagePoint };
        tri.global_topology = GlobalTopology::Toroidal { domain: l, mode };
    }
    let (x, y): (f64, f64) = (kani::any(), kani::any());
    kani::assume(x.is_finite() && y.is_finite());
    let v: Vertex<f64, (), 2> = Vertex::new_with_uuid(Point::new([x, y]), Uuid::nil(), None);
    let r = tri.verif_slice_insert_wrap(v);
    kani::cover!(r.is_ok() && toroidal, "COV toroidal insertion proceeds");
    kani::cover!(r.is_ok() && !toroidal, "COV euclidean insertion proceeds");
    if let Ok(w) = &r {
        let (ox, oy) = (w.point().coords()[0], w.point().coords()[1]);
        if toroidal {
            assert!(ox >= 0.0 && ox < l[0] && oy >= 0.0 && oy < l[1],
                "OBL later-insert-wrapped: in a toroidal triangulation the coordinates the insertion works with lie in the half-open fundamental box");
            assert!(!(x >= 0.0 && x < l[0]) || ox == x, "OBL in-range-unchanged: a coordinate already inside the box is not moved");
        } else {
            assert!(ox == x && oy == y, "OBL euclidean-untouched: without a periodic topology the vertex is inserted as given");
        }
        assert!(w.uuid().as_u128() == 0, "OBL identity-kept: the wrapped vertex keeps its UUID");
    }
    core::mem::forget(r);
    core::mem::forget(tri);
}
