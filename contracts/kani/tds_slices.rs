//! K-slices of `src/core/triangulation_data_structure.rs`.
use super::*;
use crate::core::collections::{FastHashMap, VertexKeySet};

include!("/verif/contracts/kani/common.rs");

type Tds2 = Tds<f64, (), (), 2>;
const C_REPAIR: u64 = 3;
fn stub_repair_incident<T, U, V, const D: usize>(
    _t: &mut Tds<T, U, V, D>, _a: &VertexKeySet, _s: &CellKeySet, _c: &FastHashMap<VertexKey, CellKey>,
) where U: DataType, V: DataType {
    vk_event(C_REPAIR);
}

// K-slice of remove_cells_by_keys: everything after the cells have been removed (step 2).
// Avoids the hash-set construction of the full function (which takes CBMC > 25 min).
#[kani::proof]
#[kani::unwind(6)]
#[kani::stub(Tds::repair_incident_cells_after_cell_removal, stub_repair_incident)]
fn remove_cells_tail_bumps_generation_contract() {
    let mut t = Tds2::empty();
    let g0: u64 = kani::any();
    kani::assume(g0 < u64::MAX - 2);
    t.generation.store(g0, Ordering::Relaxed);
    vk_reset(0, 0);
    let removed: usize = kani::any();
    let r = t.verif_slice_remove_cells_tail(removed, VertexKeySet::default(), CellKeySet::default(), FastHashMap::default());
    assert!(r == removed, "OBL count: reports the number of cells actually removed");
    if removed > 0 {
        assert!(t.generation() == g0 + 1, "OBL bump-on-removal: whenever at least one cell was removed the generation is bumped (exactly once)");
        assert!(vk_called(C_REPAIR), "OBL incidence-repaired: incident-cell pointers are repaired after a removal");
    } else {
        assert!(t.generation() == g0, "OBL no-bump-without-change: nothing removed => generation unchanged");
    }
    kani::cover!(removed > 0, "COV cells removed");
    kani::cover!(removed == 0, "COV nothing removed");
    core::mem::forget(t);
}
