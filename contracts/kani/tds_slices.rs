//! K-slices of `src/core/triangulation_data_structure.rs`.
use super::*;
use crate::core::collections::{FastHashMap, VertexKeySet};

include!("/verif/contracts/kani/common.rs");

type Tds2 = Tds<f64, (), (), 2>;
const C_REPAIR: u64 = 3;
fn stub_repair_incident<T, U, V, const D: usize>(
    _t: &mut Tds<T, U, V, D>, _a: &VertexKeySet, _s: &CellKeySet, _c: &FastHashMap<VertexKey, CellKey>,
) where U: DataType, V: DataType {
    vk_event(C_REPAIR);
}

// K-slice of remove_cells_by_keys: everything after the cells have been removed (step 2).
// Avoids the hash-set construction of the full function (which takes CBMC > 25 min).
#[kani::proof]
#[kani::unwind(6)]
#[kani::stub(Tds::repair_incident_cells_after_cell_removal, stub_repair_incident)]
fn remove_cells_tail_bumps_generation_contract() {
    let mut t = Tds2::empty();
    let g0: u64 = kani::any();
    kani::assume(g0 < u64::MAX - 2);
    t.generation.store(g0, Ordering::Relaxed);
    vk_reset(0, 0);
    let removed: usize = kani::any();
    let r = t.verif_slice_remove_cells_tail(removed, VertexKeySet::default(), CellKeySet::default(), FastHashMap::default());
    assert!(r == removed, "OBL count: reports the number of cells actually removed");
    if removed > 0 {
        assert!(t.generation() == g0 + 1, "OBL bump-on-removal: whenever at least one cell was removed the generation is bumped (exactly once)");
        assert!(vk_called(C_REPAIR), "OBL incidence-repaired: incident-cell pointers are repaired after a removal");
    } else {
        assert!(t.generation() == g0, "OBL no-bump-without-change: nothing removed => generation unchanged");
    }
    kani::cover!(removed > 0, "COV cells removed");
    kani::cover!(removed == 0, "COV nothing removed");
    core::mem::forget(t);
}

// C05: per-vertex decision of validate_vertex_incidence (loop body): an incident-cell hint must
// name a LIVE cell that CONTAINS the vertex.  One real (dummy, vertex-less) cell is stored so
// that "live but wrong cell" can be told apart from "dangling".
fn stub_format(_a: core::fmt::Arguments<'_>) -> String {
    String::with_capacity(1)
}

#[kani::proof]
#[kani::unwind(6)]
#[kani::stub(alloc::fmt::format, stub_format)]
fn vertex_incidence_decision_contract() {
    let mut t = Tds2::empty();
    let live = t.cells.insert(crate::core::cell::verif_kani_cell_helper::dummy_cell::<f64, (), (), 2>());
    let vk = VertexKey::from(slotmap::KeyData::from_ffi(0x1_0000_0005));
    // the hint names the live cell (which does not list the vertex) or a key that is not in storage
    let dangling = CellKey::from(slotmap::KeyData::from_ffi(0x7_0000_0009));
    let use_live: bool = kani::any();
    let hint = if use_live { live } else { dangling };
    let r = t.verif_slice_vertex_incidence_decision(vk, hint);
    assert!(r.is_err(), "OBL hint-must-contain-vertex: an incident-cell hint that is dangling OR names a live cell which does not contain the vertex is rejected (stale incident-cell pointer)");
    kani::cover!(use_live, "COV live but wrong cell");
    kani::cover!(!use_live, "COV dangling");
    core::mem::forget(r);
    core::mem::forget(t);
}
