//! Contracts for `src/core/util/hilbert.rs` (child module of the file under proof).
use super::*;

/// Contract record of `hilbert_index_from_quantized` as a precondition predicate.
fn pre_hifq<const D: usize>(q: &[u32; D], bits: u32) -> bool {
    D > 0 && bits >= 1 && bits <= 31 && (D as u128) * u128::from(bits) <= 128 && {
        let mut ok = true;
        let mut i = 0;
        while i < D {
            ok = ok && u64::from(q[i]) < (1u64 << bits);
            i += 1;
        }
        ok
    }
}

fn same<const D: usize>(a: &[u32; D], b: &[u32; D]) -> bool {
    let mut ok = true;
    let mut i = 0;
    while i < D {
        ok = ok && a[i] == b[i];
        i += 1;
    }
    ok
}

fn l1<const D: usize>(a: &[u32; D], b: &[u32; D]) -> u64 {
    let mut s = 0u64;
    let mut i = 0;
    while i < D {
        s += u64::from(a[i].abs_diff(b[i]));
        i += 1;
    }
    s
}

macro_rules! hilbert_instance {
    ($name:ident, $d:expr, $bits:expr, $unw:expr) => {
        #[kani::proof]
        #[kani::unwind($unw)]
        fn $name() {
            const D: usize = $d;
            let bits: u32 = $bits;
            let a: [u32; D] = kani::any();
            let b: [u32; D] = kani::any();
            kani::assume(pre_hifq(&a, bits));
            kani::assume(pre_hifq(&b, bits));
            let ia = hilbert_index_from_quantized(&a, bits);
            let ib = hilbert_index_from_quantized(&b, bits);
            let total = (D as u32) * bits;
            if total < 128 {
                assert!(ia < (1u128 << total), "OBL range: index < 2^(D*bits)");
            }
            assert!(ia != ib || same(&a, &b), "OBL injective: equal index implies equal cell");
            if ib == ia.wrapping_add(1) {
                assert!(l1(&a, &b) == 1, "OBL adjacent: consecutive indices are L1-adjacent cells");
            }
            kani::cover!(ib == ia.wrapping_add(1), "COV consecutive pair exists");
            kani::cover!(ia != ib, "COV distinct pair exists");
        }
    };
}

hilbert_instance!(hilbert_d2_b4, 2, 4, 7);
hilbert_instance!(hilbert_d3_b3, 3, 3, 6);
hilbert_instance!(hilbert_d5_b2, 5, 2, 8);
hilbert_instance!(hilbert_d1_b4, 1, 4, 7);
hilbert_instance!(hilbert_d2_b2, 2, 2, 5);
hilbert_instance!(hilbert_d2_b3, 2, 3, 6);
hilbert_instance!(hilbert_d3_b2, 3, 2, 6);
hilbert_instance!(hilbert_d3_b4, 3, 4, 7);
hilbert_instance!(hilbert_d4_b2, 4, 2, 7);
hilbert_instance!(hilbert_d4_b3, 4, 3, 7);
hilbert_instance!(hilbert_d4_b4, 4, 4, 7);
hilbert_instance!(hilbert_d5_b3, 5, 3, 8);
hilbert_instance!(hilbert_d2_b8, 2, 8, 11);
hilbert_instance!(hilbert_d3_b8, 3, 8, 11);
hilbert_instance!(hilbert_d2_b16, 2, 16, 19);

// =========================================================================================
// parameter validation and quantisation (C17 / C19): bad parameters => the documented Err,
// never a panic; quantised coordinates always inside the grid.
// =========================================================================================
macro_rules! quantize_instance {
    ($name:ident, $d:expr, $bits:expr) => {
        #[kani::proof]
        #[kani::unwind(7)]
        fn $name() {
            const D: usize = $d;
            let c: [f64; D] = kani::any();
            let bounds: (f64, f64) = (kani::any(), kani::any());
            let r = hilbert_quantize(&c, bounds, $bits);
            assert!(r.is_ok(), "OBL quantize-valid-bits-ok: valid bits never produce an error");
            match &r {
                Ok(q) => {
                    let mut i = 0;
                    while i < D {
                        assert!(u64::from(q[i]) < (1u64 << $bits), "OBL quantize-in-grid: every quantised coordinate lies in [0, 2^bits) for ANY f64 input (NaN, infinities, degenerate or inverted bounds included)");
                        i += 1;
                    }
                }
                Err(_) => {}
            }
            core::mem::forget(r);
        }
    };
}
quantize_instance!(hilbert_quantize_d1_b4, 1, 4);
quantize_instance!(hilbert_quantize_d2_b31, 2, 31);

#[kani::proof]
#[kani::unwind(7)]
fn hilbert_bad_parameters_contract() {
    let c: [f64; 2] = kani::any();
    let b: (f64, f64) = (kani::any(), kani::any());
    let bits: u32 = kani::any();
    kani::assume(bits == 0 || bits > 31);
    let r1 = hilbert_quantize(&c, b, bits);
    assert!(matches!(r1, Err(HilbertError::InvalidBitsParameter { .. })), "OBL quantize-bad-bits: bits == 0 or > 31 => InvalidBitsParameter");
    let r2 = hilbert_index(&c, b, bits);
    assert!(matches!(r2, Err(HilbertError::InvalidBitsParameter { .. })), "OBL index-bad-bits: bits == 0 or > 31 => InvalidBitsParameter");
    let q: [[u32; 2]; 1] = [kani::any()];
    let r3 = hilbert_indices_prequantized(&q, bits);
    assert!(matches!(r3, Err(HilbertError::InvalidBitsParameter { .. })), "OBL bulk-bad-bits: bits == 0 or > 31 => InvalidBitsParameter");
    // D * bits > 128 => IndexOverflow (D = 5, bits = 26..=31)
    let c5: [f64; 5] = kani::any();
    let bits5: u32 = kani::any();
    kani::assume(bits5 >= 26 && bits5 <= 31);
    let r4 = hilbert_index(&c5, b, bits5);
    assert!(matches!(r4, Err(HilbertError::IndexOverflow { .. })), "OBL index-overflow: D * bits > 128 => IndexOverflow, never a wrapped index");
    let q5: [[u32; 5]; 1] = [kani::any()];
    let r5 = hilbert_indices_prequantized(&q5, bits5);
    assert!(matches!(r5, Err(HilbertError::IndexOverflow { .. })), "OBL bulk-overflow: D * bits > 128 => IndexOverflow");
    core::mem::forget((r1, r2, r3, r4, r5));
}
