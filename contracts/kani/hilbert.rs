//! Contracts for `src/core/util/hilbert.rs` (child module of the file under proof).
use super::*;

/// Contract record of `hilbert_index_from_quantized` as a precondition predicate.
fn pre_hifq<const D: usize>(q: &[u32; D], bits: u32) -> bool {
    D > 0 && bits >= 1 && bits <= 31 && (D as u128) * u128::from(bits) <= 128 && {
        let mut ok = true;
        let mut i = 0;
        while i < D {
            ok = ok && u64::from(q[i]) < (1u64 << bits);
            i += 1;
        }
        ok
    }
}

fn same<const D: usize>(a: &[u32; D], b: &[u32; D]) -> bool {
    let mut ok = true;
    let mut i = 0;
    while i < D {
        ok = ok && a[i] == b[i];
        i += 1;
    }
    ok
}

fn l1<const D: usize>(a: &[u32; D], b: &[u32; D]) -> u64 {
    let mut s = 0u64;
    let mut i = 0;
    while i < D {
        s += u64::from(a[i].abs_diff(b[i]));
        i += 1;
    }
    s
}

macro_rules! hilbert_instance {
    ($name:ident, $d:expr, $bits:expr, $unw:expr) => {
        #[kani::proof]
        #[kani::unwind($unw)]
        fn $name() {
            const D: usize = $d;
            let bits: u32 = $bits;
            let a: [u32; D] = kani::any();
            let b: [u32; D] = kani::any();
            kani::assume(pre_hifq(&a, bits));
            kani::assume(pre_hifq(&b, bits));
            let ia = hilbert_index_from_quantized(&a, bits);
            let ib = hilbert_index_from_quantized(&b, bits);
            let total = (D as u32) * bits;
            if total < 128 {
                assert!(ia < (1u128 << total), "OBL range: index < 2^(D*bits)");
            }
            assert!(ia != ib || same(&a, &b), "OBL injective: equal index implies equal cell");
            if ib == ia.wrapping_add(1) {
                assert!(l1(&a, &b) == 1, "OBL adjacent: consecutive indices are L1-adjacent cells");
            }
            kani::cover!(ib == ia.wrapping_add(1), "COV consecutive pair exists");
            kani::cover!(ia != ib, "COV distinct pair exists");
        }
    };
}

hilbert_instance!(hilbert_d2_b4, 2, 4, 7);
hilbert_instance!(hilbert_d3_b3, 3, 3, 6);
hilbert_instance!(hilbert_d5_b2, 5, 2, 8);
hilbert_instance!(hilbert_d1_b4, 1, 4, 7);
hilbert_instance!(hilbert_d2_b2, 2, 2, 5);
hilbert_instance!(hilbert_d2_b3, 2, 3, 6);
hilbert_instance!(hilbert_d3_b2, 3, 2, 6);
hilbert_instance!(hilbert_d3_b4, 3, 4, 7);
hilbert_instance!(hilbert_d4_b2, 4, 2, 7);
hilbert_instance!(hilbert_d4_b3, 4, 3, 7);
hilbert_instance!(hilbert_d4_b4, 4, 4, 7);
hilbert_instance!(hilbert_d5_b3, 5, 3, 8);
hilbert_instance!(hilbert_d2_b8, 2, 8, 11);
hilbert_instance!(hilbert_d3_b8, 3, 8, 11);
hilbert_instance!(hilbert_d2_b16, 2, 16, 19);
