//! Helper attached to `src/core/cell.rs`: a syntactically valid (empty) Cell value for harnesses
//! that need a `&Cell` only to be mentioned in an error message.
use super::*;
pub(crate) fn dummy_cell<T, U: DataType, V: DataType, const D: usize>() -> Cell<T, U, V, D> {
    Cell {
        vertices: CellVertexBuffer::new(),
        uuid: Uuid::nil(),
        neighbors: None,
        data: None,
        periodic_vertex_offsets: None,
        _phantom: PhantomData,
    }
}
