//! Helper attached to `src/core/cell.rs`: a syntactically valid (empty) Cell value for harnesses
//! that need a `&Cell` only to be mentioned in an error message.
use super::*;
pub(crate) fn dummy_cell<T, U: DataType, V: DataType, const D: usize>() -> Cell<T, U, V, D> {
    Cell {
        vertices: CellVertexBuffer::new(),
        uuid: Uuid::nil(),
        neighbors: None,
        data: None,
        periodic_vertex_offsets: None,
        _phantom: PhantomData,
    }
}
/// a Cell listing the given vertex keys (no neighbours, nil UUID) - enough for `contains_vertex`
pub(crate) fn dummy_cell_with<T, U: DataType, V: DataType, const D: usize>(vs: &[VertexKey]) -> Cell<T, U, V, D> {
    let mut c = dummy_cell::<T, U, V, D>();
    let mut i = 0;
    while i < vs.len() && i < 6 {
        c.vertices.push(vs[i]);
        i += 1;
    }
    c
}
