//! Contracts for `src/geometry/algorithms/convex_hull.rs`: the staleness protocol.
use super::*;
use crate::core::triangulation_data_structure::{CellKey, Tds};
use crate::geometry::kernel::FastKernel;
use slotmap::KeyData;

include!("/verif/contracts/kani/common.rs");

type Tri2 = Triangulation<FastKernel<f64>, (), (), 2>;
type Hull2 = ConvexHull<FastKernel<f64>, (), (), 2>;

const E_MAP: u64 = 1;

/// any cache build / facet access after a stale hull was detected is a contract violation:
/// the stub only records that it was reached.
fn stub_map<T, U, V, const D: usize>(_t: &Tds<T, U, V, D>) -> Result<FacetToCellsMap, TdsValidationError>
where U: DataType, V: DataType {
    vk_event(E_MAP);
    Ok(FacetToCellsMap::default())
}

fn mk_hull(created: Option<u64>, nfacets: usize) -> Hull2 {
    let mut hull_facets = Vec::with_capacity(2);
    let mut i = 0;
    while i < nfacets && i < 2 {
        hull_facets.push(FacetHandle::new(CellKey::from(KeyData::from_ffi(0x1_0000_0001 + i as u64)), 0));
        i += 1;
    }
    let creation_generation = OnceLock::new();
    if let Some(g) = created {
        let _ = creation_generation.set(g);
    }
    ConvexHull {
        hull_facets,
        facet_to_cells_cache: ArcSwapOption::empty(),
        creation_generation,
        cached_generation: Arc::new(AtomicU64::new(kani::any())),
        _phantom: PhantomData,
    }
}
/// CONTRACT of Tds::generation (proved by unit tds.generation): reads the counter; the
/// counter value of the triangulation is chosen by the harness.
fn stub_generation<T, U, V, const D: usize>(_t: &Tds<T, U, V, D>) -> u64
where U: DataType, V: DataType {
    VK_AUX.load(AOrd::Relaxed)
}
fn mk_tri(generation: u64) -> Tri2 {
    VK_AUX.store(generation, AOrd::Relaxed);
    Tri2::new_empty(FastKernel::new())
}

// ---- validity predicate -------------------------------------------------------------------
#[kani::proof]
#[kani::unwind(4)]
#[kani::stub(Tds::generation, stub_generation)]
fn hull_validity_contract() {
    let g: u64 = kani::any();
    let t: u64 = kani::any();
    let tri = mk_tri(t);
    let n: usize = kani::any();
    kani::assume(n <= 2);
    let hull = mk_hull(Some(g), n);
    assert!(hull.is_valid_for_triangulation(&tri) == (g == t), "OBL valid-iff-same-generation: a hull is valid for a triangulation exactly when the triangulation's generation equals the hull's creation generation");
    hull.invalidate_cache();
    assert!(hull.is_valid_for_triangulation(&tri) == (g == t), "OBL invalidate-keeps-creation: invalidate_cache does not touch the creation generation");
    let empty = mk_hull(None, 0);
    assert!(empty.is_valid_for_triangulation(&tri), "OBL empty-valid: an empty, never-built hull is valid (nothing to be stale)");
    let unset_nonempty = mk_hull(None, 1);
    assert!(!unset_nonempty.is_valid_for_triangulation(&tri), "OBL unset-nonempty-invalid: facets without a creation generation are never valid");
    core::mem::forget(hull);
    core::mem::forget(empty);
    core::mem::forget(unset_nonempty);
    core::mem::forget(tri);
}

// ---- every query refuses a stale hull before touching caches or facets ---------------------
macro_rules! stale_query {
    ($name:ident, $call:expr, $pat:pat, $obl:literal) => {
        stale_query!(@gen $name, $call, $obl, { let g: u64 = kani::any(); let t: u64 = kani::any(); kani::assume(g != t); (g, t) }, { let n: usize = kani::any(); kani::assume(n >= 1 && n <= 2); n });
    };
    // quick-tier instances: concrete generation pairs (older and newer hull), one facet handle -
    // CBMC then prunes everything behind the staleness guard by constant propagation
    (@concrete $name:ident, $call:expr, $obl:literal, $g:expr, $t:expr) => {
        stale_query!(@gen $name, $call, $obl, { ($g as u64, $t as u64) }, { 1usize });
    };
    (@gen $name:ident, $call:expr, $obl:literal, $gens:block, $nf:block) => {
        #[kani::proof]
        #[kani::unwind(4)]
        #[kani::stub(Tds::build_facet_to_cells_map, stub_map)]
        #[kani::stub(Tds::generation, stub_generation)]
        fn $name() {
            let (g, t): (u64, u64) = $gens; // g != t: the triangulation changed after the hull was extracted
            let tri = mk_tri(t);
            let n: usize = $nf;
            let hull = mk_hull(Some(g), n);
            vk_reset(0, 0);
            let p: Point<f64, 2> = Point::new([kani::any(), kani::any()]);
            let f = FacetHandle::new(CellKey::from(KeyData::from_ffi(0x1_0000_0001)), 0);
            let call: fn(&Hull2, &Tri2, &Point<f64, 2>, &FacetHandle) -> bool = $call;
            let stale = call(&hull, &tri, &p, &f);
            assert!(stale, $obl);
            assert!(vk_ncalls() == 0, "OBL no-cache-work: staleness is reported before any facet-cache build");
            core::mem::forget(hull);
            core::mem::forget(tri);
        }
    };
}
stale_query!(hull_stale_validate, |h, t, _p, _f| { let r = h.validate(t); let s = matches!(&r, Err(ConvexHullValidationError::StaleHull { .. })); core::mem::forget(r); s }, _,
    "OBL stale-validate: validate() on a hull whose triangulation changed reports StaleHull");
stale_query!(hull_stale_is_point_outside, |h, t, p, _f| { let r = h.is_point_outside(p, t); let s = matches!(&r, Err(ConvexHullConstructionError::StaleHull { .. })); core::mem::forget(r); s }, _,
    "OBL stale-is-point-outside: is_point_outside() on a stale hull reports StaleHull instead of an answer");
stale_query!(hull_stale_find_visible, |h, t, p, _f| { let r = h.find_visible_facets(p, t); let s = matches!(&r, Err(ConvexHullConstructionError::StaleHull { .. })); core::mem::forget(r); s }, _,
    "OBL stale-find-visible: find_visible_facets() on a stale hull reports StaleHull instead of an answer");
stale_query!(hull_stale_find_nearest, |h, t, p, _f| { let r = h.find_nearest_visible_facet(p, t); let s = matches!(&r, Err(ConvexHullConstructionError::StaleHull { .. })); core::mem::forget(r); s }, _,
    "OBL stale-find-nearest: find_nearest_visible_facet() on a stale hull reports StaleHull instead of an answer");
stale_query!(hull_stale_facet_visible, |h, t, p, f| { let r = h.is_facet_visible_from_point(f, p, t); let s = matches!(&r, Err(ConvexHullConstructionError::StaleHull { .. })); core::mem::forget(r); s }, _,
    "OBL stale-facet-visible: is_facet_visible_from_point() on a stale hull reports StaleHull instead of an answer");

stale_query!(@concrete hull_stale_validate_c56, |h, t, _p, _f| { let r = h.validate(t); let s = matches!(&r, Err(ConvexHullValidationError::StaleHull { .. })); core::mem::forget(r); s },
    "OBL stale-validate: validate() on a hull whose triangulation changed reports StaleHull", 5, 6);
stale_query!(@concrete hull_stale_validate_c65, |h, t, _p, _f| { let r = h.validate(t); let s = matches!(&r, Err(ConvexHullValidationError::StaleHull { .. })); core::mem::forget(r); s },
    "OBL stale-validate: validate() on a hull whose triangulation changed reports StaleHull", 6, 5);
stale_query!(@concrete hull_stale_is_point_outside_c56, |h, t, p, _f| { let r = h.is_point_outside(p, t); let s = matches!(&r, Err(ConvexHullConstructionError::StaleHull { .. })); core::mem::forget(r); s },
    "OBL stale-is-point-outside: is_point_outside() on a stale hull reports StaleHull instead of an answer", 5, 6);
stale_query!(@concrete hull_stale_is_point_outside_c65, |h, t, p, _f| { let r = h.is_point_outside(p, t); let s = matches!(&r, Err(ConvexHullConstructionError::StaleHull { .. })); core::mem::forget(r); s },
    "OBL stale-is-point-outside: is_point_outside() on a stale hull reports StaleHull instead of an answer", 6, 5);
stale_query!(@concrete hull_stale_facet_visible_c56, |h, t, p, f| { let r = h.is_facet_visible_from_point(f, p, t); let s = matches!(&r, Err(ConvexHullConstructionError::StaleHull { .. })); core::mem::forget(r); s },
    "OBL stale-facet-visible: is_facet_visible_from_point() on a stale hull reports StaleHull instead of an answer", 5, 6);
stale_query!(@concrete hull_stale_find_nearest_c65, |h, t, p, _f| { let r = h.find_nearest_visible_facet(p, t); let s = matches!(&r, Err(ConvexHullConstructionError::StaleHull { .. })); core::mem::forget(r); s },
    "OBL stale-find-nearest: find_nearest_visible_facet() on a stale hull reports StaleHull instead of an answer", 6, 5);

// ---- quick-tier versions: the per-facet helper is replaced by a stub that only records that it
// ---- was reached.  Obligation: a stale hull is refused BEFORE the helper or any cache build runs.
const E_HELPER: u64 = 2;
fn stub_helper<K, U, V, const D: usize>(
    _h: &ConvexHull<K, U, V, D>, _f: &FacetHandle, _p: &Point<K::Scalar, D>, _t: &Triangulation<K, U, V, D>, _m: &FacetToCellsMap,
) -> Result<bool, ConvexHullConstructionError>
where K: Kernel<D>, K::Scalar: ScalarAccumulative + Sub<Output = K::Scalar> + DivAssign + Copy, U: DataType, V: DataType, [K::Scalar; D]: Copy + Sized {
    vk_event(E_HELPER);
    Ok(kani::any())
}
macro_rules! stale_query_fast {
    ($name:ident, $call:expr, $obl:literal) => {
        #[kani::proof]
        #[kani::unwind(4)]
        #[kani::stub(Tds::build_facet_to_cells_map, stub_map)]
        #[kani::stub(Tds::generation, stub_generation)]
        #[kani::stub(ConvexHull::is_facet_visible_from_point_with_cache, stub_helper)]
        fn $name() {
            let g: u64 = kani::any();
            let t: u64 = kani::any();
            kani::assume(g != t); // the triangulation changed after the hull was extracted
            let tri = mk_tri(t);
            let hull = mk_hull(Some(g), 1);
            vk_reset(0, 0);
            let p: Point<f64, 2> = Point::new([kani::any(), kani::any()]);
            let f = FacetHandle::new(CellKey::from(KeyData::from_ffi(0x1_0000_0001)), 0);
            let call: fn(&Hull2, &Tri2, &Point<f64, 2>, &FacetHandle) -> bool = $call;
            let stale = call(&hull, &tri, &p, &f);
            assert!(stale, $obl);
            assert!(vk_ncalls() == 0, "OBL refused-first: staleness is reported before any facet-cache build and before any per-facet visibility work");
            core::mem::forget(hull);
            core::mem::forget(tri);
        }
    };
}
stale_query_fast!(hull_stale_fast_is_point_outside, |h, t, p, _f| { let r = h.is_point_outside(p, t); let s = matches!(&r, Err(ConvexHullConstructionError::StaleHull { .. })); core::mem::forget(r); s },
    "OBL stale-is-point-outside: is_point_outside() on a stale hull reports StaleHull instead of an answer");
stale_query_fast!(hull_stale_fast_find_visible, |h, t, p, _f| { let r = h.find_visible_facets(p, t); let s = matches!(&r, Err(ConvexHullConstructionError::StaleHull { .. })); core::mem::forget(r); s },
    "OBL stale-find-visible: find_visible_facets() on a stale hull reports StaleHull instead of an answer");
stale_query_fast!(hull_stale_fast_find_nearest, |h, t, p, _f| { let r = h.find_nearest_visible_facet(p, t); let s = matches!(&r, Err(ConvexHullConstructionError::StaleHull { .. })); core::mem::forget(r); s },
    "OBL stale-find-nearest: find_nearest_visible_facet() on a stale hull reports StaleHull instead of an answer");
stale_query_fast!(hull_stale_fast_facet_visible, |h, t, p, f| { let r = h.is_facet_visible_from_point(f, p, t); let s = matches!(&r, Err(ConvexHullConstructionError::StaleHull { .. })); core::mem::forget(r); s },
    "OBL stale-facet-visible: is_facet_visible_from_point() on a stale hull reports StaleHull instead of an answer");
