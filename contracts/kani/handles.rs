//! Contracts for the canonical handles of `src/core/algorithms/flips.rs` (and EdgeKey / facet keys).
use super::*;
use crate::core::edge::EdgeKey;
use crate::core::facet::facet_key_from_vertices;
use slotmap::KeyData;

/// any *valid* slot-map key (version part non-zero, as `KeyData::from_ffi` normalises it)
fn any_vkey() -> VertexKey {
    let raw: u64 = kani::any();
    VertexKey::from(KeyData::from_ffi(raw))
}
fn raw(v: VertexKey) -> u64 {
    v.data().as_ffi()
}

// C07: a triangle / ridge / edge handle is canonical: independent of the argument order
#[kani::proof]
#[kani::unwind(8)]
fn handles_canonical_contract() {
    let (a, b, c) = (any_vkey(), any_vkey(), any_vkey());
    let t = TriangleHandle::new(a, b, c).vertices();
    assert!(raw(t[0]) <= raw(t[1]) && raw(t[1]) <= raw(t[2]), "OBL triangle-sorted: TriangleHandle stores its vertices sorted by raw key");
    let perms = [
        TriangleHandle::new(a, c, b), TriangleHandle::new(b, a, c), TriangleHandle::new(b, c, a),
        TriangleHandle::new(c, a, b), TriangleHandle::new(c, b, a),
    ];
    let t0 = TriangleHandle::new(a, b, c);
    let mut i = 0;
    while i < 5 {
        let p = perms[i].vertices();
        assert!(raw(p[0]) == raw(t[0]) && raw(p[1]) == raw(t[1]) && raw(p[2]) == raw(t[2]) && perms[i] == t0,
            "OBL triangle-permutation-invariant: every argument order yields the same handle");
        i += 1;
    }
    // the handle is a permutation of its arguments (nothing invented)
    let s_in = raw(a) as u128 + raw(b) as u128 + raw(c) as u128;
    let s_out = raw(t[0]) as u128 + raw(t[1]) as u128 + raw(t[2]) as u128;
    assert!(s_in == s_out && (raw(t[0]) == raw(a) || raw(t[0]) == raw(b) || raw(t[0]) == raw(c)) && (raw(t[2]) == raw(a) || raw(t[2]) == raw(b) || raw(t[2]) == raw(c)),
        "OBL triangle-same-vertices: the handle holds exactly the three given vertices");

    let e1 = EdgeKey::new(a, b);
    let e2 = EdgeKey::new(b, a);
    assert!(e1 == e2, "OBL edge-symmetric: EdgeKey::new(a, b) == EdgeKey::new(b, a)");
    let (lo, hi) = e1.endpoints();
    assert!(raw(lo) <= raw(hi) && ((raw(lo) == raw(a) && raw(hi) == raw(b)) || (raw(lo) == raw(b) && raw(hi) == raw(a))),
        "OBL edge-canonical: endpoints are the two given vertices, smaller raw key first");

    let ck = CellKey::from(KeyData::from_ffi(kani::any()));
    let (x, y): (u8, u8) = (kani::any(), kani::any());
    let r1 = RidgeHandle::new(ck, x, y);
    let r2 = RidgeHandle::new(ck, y, x);
    assert!(r1 == r2 && r1.omit_a() <= r1.omit_b() && r1.cell_key() == ck, "OBL ridge-canonical: RidgeHandle is symmetric in its two omitted slots and stores them sorted");
    assert!((r1.omit_a() == x && r1.omit_b() == y) || (r1.omit_a() == y && r1.omit_b() == x), "OBL ridge-same-slots: the handle holds exactly the two given slots");
}

// C05 / C15: the facet key is a function of the vertex SET (order of listing irrelevant)
#[kani::proof]
#[kani::unwind(8)]
fn facet_key_permutation_contract() {
    let (a, b, c) = (any_vkey(), any_vkey(), any_vkey());
    let k = facet_key_from_vertices(&[a, b, c]);
    assert!(k == facet_key_from_vertices(&[a, c, b]) && k == facet_key_from_vertices(&[b, a, c]) && k == facet_key_from_vertices(&[b, c, a])
        && k == facet_key_from_vertices(&[c, a, b]) && k == facet_key_from_vertices(&[c, b, a]),
        "OBL facet-key-order-free: the facet key of three vertices does not depend on the order in which they are listed");
    let k2 = facet_key_from_vertices(&[a, b]);
    assert!(k2 == facet_key_from_vertices(&[b, a]), "OBL facet-key-order-free-2: same for two vertices");
    assert!(facet_key_from_vertices(&[]) == 0, "OBL facet-key-empty: the empty vertex list maps to 0");
}
