//! Contracts for `src/core/algorithms/flips.rs`.
use super::*;
use crate::core::triangulation_data_structure::TriangulationConstructionState;
use crate::geometry::kernel::FastKernel;

include!("/verif/contracts/kani/common.rs");

const E_K2: u64 = 1; // repair_delaunay_with_flips_k2_attempt
const E_K2K3: u64 = 2; // repair_delaunay_with_flips_k2_k3_attempt
const E_VOK: u64 = 3; // verify_repair_postcondition -> Ok
const E_VERR: u64 = 4; // verify_repair_postcondition -> Err

/// ghost tag inside the real value: "which triangulation state is this"
fn tag<T, U: DataType, V: DataType, const D: usize>(t: &Tds<T, U, V, D>) -> usize {
    match t.construction_state {
        TriangulationConstructionState::Incomplete(n) => n,
        TriangulationConstructionState::Constructed => usize::MAX,
    }
}
fn set_tag<T, U: DataType, V: DataType, const D: usize>(t: &mut Tds<T, U, V, D>, n: usize) {
    t.construction_state = TriangulationConstructionState::Incomplete(n);
}

fn diag() -> DelaunayRepairDiagnostics {
    DelaunayRepairDiagnostics {
        facets_checked: 0,
        flips_performed: 0,
        max_queue_len: 0,
        ambiguous_predicates: 0,
        ambiguous_predicate_samples: Vec::with_capacity(1),
        predicate_failures: 0,
        cycle_detections: 0,
        cycle_signature_samples: Vec::with_capacity(1),
        attempt: 0,
        queue_order: RepairQueueOrder::Fifo,
        used_robust_predicates: false,
    }
}

/// CONTRACT of one repair attempt: may perform any flips (havoc the state tag), then returns
/// Ok(stats), Err(NonConvergent) or any other Err.  Records the attempt number and whether it
/// started from the pre-repair state (VK_AUX holds the entry tag; bit 60+attempt is cleared if not).
fn attempt_contract<K, U, V, const D: usize>(
    tds: &mut Tds<K::Scalar, U, V, D>,
    code: u64,
    config: &RepairAttemptConfig,
) -> Result<DelaunayRepairStats, DelaunayRepairError>
where K: Kernel<D>, U: DataType, V: DataType {
    vk_event(code);
    let tag0 = VK_AUX.load(AOrd::Relaxed) as usize;
    if tag(tds) != tag0 {
        // remember that an attempt started from a dirty state
        VK_FAIL.store(VK_FAIL.load(AOrd::Relaxed) | (1 << config.attempt), AOrd::Relaxed);
    }
    // attempts are numbered 1, 2, 3 in order
    if config.attempt as u64 != vk_ncalls_attempts() {
        VK_FAIL.store(VK_FAIL.load(AOrd::Relaxed) | (1 << 8), AOrd::Relaxed);
    }
    if kani::any() {
        set_tag(tds, kani::any()); // any number of flips happened
    }
    match kani::any::<u8>() % 3 {
        0 => Ok(DelaunayRepairStats { facets_checked: kani::any(), flips_performed: kani::any(), max_queue_len: kani::any() }),
        1 => Err(DelaunayRepairError::NonConvergent { max_flips: kani::any(), diagnostics: diag() }),
        _ => Err(DelaunayRepairError::Flip(FlipError::UnsupportedDimension { dimension: 77 })),
    }
}
static VK_ATTEMPTS: AtomicU64 = AtomicU64::new(0);
fn vk_ncalls_attempts() -> u64 {
    let n = VK_ATTEMPTS.load(AOrd::Relaxed) + 1;
    VK_ATTEMPTS.store(n, AOrd::Relaxed);
    n
}
fn stub_k2_attempt<K, U, V, const D: usize>(
    tds: &mut Tds<K::Scalar, U, V, D>, _kernel: &K, _seed: Option<&[CellKey]>, config: &RepairAttemptConfig,
) -> Result<DelaunayRepairStats, DelaunayRepairError>
where K: Kernel<D>, K::Scalar: ScalarSummable, U: DataType, V: DataType {
    attempt_contract::<K, U, V, D>(tds, E_K2, config)
}
fn stub_k2k3_attempt<K, U, V, const D: usize>(
    tds: &mut Tds<K::Scalar, U, V, D>, _kernel: &K, _seed: Option<&[CellKey]>, config: &RepairAttemptConfig,
) -> Result<DelaunayRepairStats, DelaunayRepairError>
where K: Kernel<D>, K::Scalar: ScalarSummable, U: DataType, V: DataType {
    attempt_contract::<K, U, V, D>(tds, E_K2K3, config)
}
/// CONTRACT of the postcondition verifier: pure, any verdict; remembers the tag it certified.
fn stub_verify<K, U, V, const D: usize>(
    tds: &Tds<K::Scalar, U, V, D>, _kernel: &K, _seed: Option<&[CellKey]>,
) -> Result<(), DelaunayRepairError>
where K: Kernel<D>, K::Scalar: ScalarSummable, U: DataType, V: DataType {
    if kani::any() {
        vk_event(E_VOK);
        VK_NCELLS.store(tag(tds), AOrd::Relaxed); // the state that was certified
        Ok(())
    } else {
        vk_event(E_VERR);
        Err(DelaunayRepairError::Flip(FlipError::UnsupportedDimension { dimension: 78 }))
    }
}
fn stub_trace() -> bool {
    kani::any()
}

macro_rules! repair_protocol_instance {
    ($name:ident, $d:expr) => {
        #[kani::proof]
        #[kani::unwind(2)]
        #[kani::stub(repair_delaunay_with_flips_k2_attempt, stub_k2_attempt)]
        #[kani::stub(repair_delaunay_with_flips_k2_k3_attempt, stub_k2k3_attempt)]
        #[kani::stub(verify_repair_postcondition, stub_verify)]
        #[kani::stub(repair_trace_enabled, stub_trace)]
        fn $name() {
            const D: usize = $d;
            let mut tds: Tds<f64, (), (), D> = Tds::empty();
            let tag0: usize = kani::any();
            kani::assume(tag0 != usize::MAX);
            set_tag(&mut tds, tag0);
            vk_reset(0, 0);
            VK_ATTEMPTS.store(0, AOrd::Relaxed);
            VK_AUX.store(tag0 as u64, AOrd::Relaxed);
            let kernel = FastKernel::<f64>::new();
            let topo = TopologyGuarantee::PLManifold;
            let r = repair_delaunay_with_flips_k2_k3(&mut tds, &kernel, None, topo);
            let log = vk_log();
            let flags = VK_FAIL.load(AOrd::Relaxed);
            let attempts = VK_ATTEMPTS.load(AOrd::Relaxed);
            if D < 2 {
                assert!(r.is_err() && vk_ncalls() == 0 && tag(&tds) == tag0, "OBL low-dim: D < 2 => Err, no attempt, unchanged");
            } else {
                assert!(attempts >= 1 && attempts <= 3, "OBL three-attempts: at least one and at most three attempts");
                assert!(flags & (1 << 8) == 0, "OBL attempt-order: attempts are configured 1, 2, 3 in order");
                assert!(flags & 0b1110 == 0, "OBL clean-start: every attempt starts from the pre-repair state (snapshot restored before a retry)");
                let uses = if D == 2 { E_K2 } else { E_K2K3 };
                let other = if D == 2 { E_K2K3 } else { E_K2 };
                assert!(!vk_called(other) && vk_called(uses), "OBL engine-by-dim: D == 2 uses the k=2 engine, D >= 3 the k=2/k=3 engine");
                match &r {
                    Ok(_) => {
                        assert!((log & 0xf) == E_VOK, "OBL ok-certified: Ok only if the LAST thing that happened is a passing postcondition check");
                        assert!(VK_NCELLS.load(AOrd::Relaxed) == tag(&tds), "OBL ok-certified-state: the state returned is the state that was certified");
                    }
                    Err(_) => {
                        assert!(tag(&tds) == tag0, "OBL err-unchanged: Err => the triangulation is exactly the pre-repair state");
                    }
                }
            }
            kani::cover!(r.is_ok() && attempts == 1, "COV ok after one attempt");
            kani::cover!(r.is_ok() && attempts == 3, "COV ok after three attempts");
            kani::cover!(r.is_err() && attempts == 3, "COV err after three attempts");
            kani::cover!(r.is_err() && attempts == 1, "COV err after one attempt");
            core::mem::forget(r);
            core::mem::forget(tds);
        }
    };
}
repair_protocol_instance!(repair_protocol_d2, 2);
repair_protocol_instance!(repair_protocol_d3, 3);
repair_protocol_instance!(repair_protocol_d1, 1);
