//! Contracts for `src/core/algorithms/flips.rs`.
use super::*;
use crate::core::triangulation_data_structure::TriangulationConstructionState;
use crate::geometry::kernel::FastKernel;

include!("/verif/contracts/kani/common.rs");

const E_K2: u64 = 1; // repair_delaunay_with_flips_k2_attempt
const E_K2K3: u64 = 2; // repair_delaunay_with_flips_k2_k3_attempt
const E_VOK: u64 = 3; // verify_repair_postcondition -> Ok
const E_VERR: u64 = 4; // verify_repair_postcondition -> Err

/// ghost tag inside the real value: "which triangulation state is this"
fn tag<T, U: DataType, V: DataType, const D: usize>(t: &Tds<T, U, V, D>) -> usize {
    match t.construction_state {
        TriangulationConstructionState::Incomplete(n) => n,
        TriangulationConstructionState::Constructed => usize::MAX,
    }
}
fn set_tag<T, U: DataType, V: DataType, const D: usize>(t: &mut Tds<T, U, V, D>, n: usize) {
    t.construction_state = TriangulationConstructionState::Incomplete(n);
}

fn diag() -> DelaunayRepairDiagnostics {
    DelaunayRepairDiagnostics {
        facets_checked: 0,
        flips_performed: 0,
        max_queue_len: 0,
        ambiguous_predicates: 0,
        ambiguous_predicate_samples: Vec::with_capacity(1),
        predicate_failures: 0,
        cycle_detections: 0,
        cycle_signature_samples: Vec::with_capacity(1),
        attempt: 0,
        queue_order: RepairQueueOrder::Fifo,
        used_robust_predicates: false,
    }
}

// Ghost state of this harness is WRITE-ONLY inside the stubs (constant / data stores into
// distinct statics, all reads happen in the harness).  Reason: with kani 0.68 a read-modify-
// write of a static inside a stub (a call counter) combined with the clone / drop cycles of
// the snapshot made CBMC report spurious `__rust_dealloc` failures and silently cut the
// three-attempt paths (caught by the cover guards; see DESIGN.md 8).
use core::sync::atomic::AtomicBool;
static ATT1: AtomicBool = AtomicBool::new(false);
static ATT2: AtomicBool = AtomicBool::new(false);
static ATT3: AtomicBool = AtomicBool::new(false);
static ATT_BAD: AtomicBool = AtomicBool::new(false); // an attempt number outside 1..=3, or attempt k+1 before k
static USED_K2: AtomicBool = AtomicBool::new(false);
static USED_K2K3: AtomicBool = AtomicBool::new(false);
static CERT_VALID: AtomicBool = AtomicBool::new(false); // the last thing that happened is a passing postcondition check
static DIRTY_START: AtomicBool = AtomicBool::new(false); // an attempt started from a state an earlier attempt produced

/// CONTRACT of one repair attempt: may perform any flips (havoc the state tag), then returns
/// Ok(stats), Err(NonConvergent) or any other Err.
fn attempt_contract<K, U, V, const D: usize>(
    tds: &mut Tds<K::Scalar, U, V, D>,
    k2: bool,
    config: &RepairAttemptConfig,
) -> Result<DelaunayRepairStats, DelaunayRepairError>
where K: Kernel<D>, U: DataType, V: DataType {
    if k2 { USED_K2.store(true, AOrd::Relaxed); } else { USED_K2K3.store(true, AOrd::Relaxed); }
    CERT_VALID.store(false, AOrd::Relaxed);
    // write-only, constant stores only: an attempt that starts from a state some earlier attempt
    // produced (tag >= 2^32) instead of the restored pre-repair state (tag < 2^32) is "dirty"
    if tag(tds) >= (1usize << 32) {
        DIRTY_START.store(true, AOrd::Relaxed);
    }
    match config.attempt {
        1 => ATT1.store(true, AOrd::Relaxed),
        2 => ATT2.store(true, AOrd::Relaxed),
        3 => ATT3.store(true, AOrd::Relaxed),
        _ => ATT_BAD.store(true, AOrd::Relaxed),
    }
    // "any flips happened": the attempt leaves SOME state of its own making.  Attempt states
    // live in [2^32, 2^33), the pre-repair state below 2^32, so the harness can tell a state an
    // attempt produced from the restored snapshot without the stubs reading any ghost state.
    set_tag(tds, (1usize << 32) + kani::any::<u32>() as usize);
    match kani::any::<u8>() % 3 {
        0 => Ok(DelaunayRepairStats { facets_checked: kani::any(), flips_performed: kani::any(), max_queue_len: kani::any() }),
        1 => Err(DelaunayRepairError::NonConvergent { max_flips: kani::any(), diagnostics: diag() }),
        _ => Err(DelaunayRepairError::Flip(FlipError::UnsupportedDimension { dimension: 77 })),
    }
}
fn stub_k2_attempt<K, U, V, const D: usize>(
    tds: &mut Tds<K::Scalar, U, V, D>, _kernel: &K, _seed: Option<&[CellKey]>, config: &RepairAttemptConfig,
) -> Result<DelaunayRepairStats, DelaunayRepairError>
where K: Kernel<D>, K::Scalar: ScalarSummable, U: DataType, V: DataType {
    attempt_contract::<K, U, V, D>(tds, true, config)
}
fn stub_k2k3_attempt<K, U, V, const D: usize>(
    tds: &mut Tds<K::Scalar, U, V, D>, _kernel: &K, _seed: Option<&[CellKey]>, config: &RepairAttemptConfig,
) -> Result<DelaunayRepairStats, DelaunayRepairError>
where K: Kernel<D>, K::Scalar: ScalarSummable, U: DataType, V: DataType {
    attempt_contract::<K, U, V, D>(tds, false, config)
}
/// CONTRACT of the postcondition verifier: pure, any verdict; remembers the state it certified.
fn stub_verify<K, U, V, const D: usize>(
    tds: &Tds<K::Scalar, U, V, D>, _kernel: &K, _seed: Option<&[CellKey]>,
) -> Result<(), DelaunayRepairError>
where K: Kernel<D>, K::Scalar: ScalarSummable, U: DataType, V: DataType {
    if kani::any() {
        CERT_VALID.store(true, AOrd::Relaxed);
        Ok(())
    } else {
        CERT_VALID.store(false, AOrd::Relaxed);
        Err(DelaunayRepairError::Flip(FlipError::UnsupportedDimension { dimension: 78 }))
    }
}
fn stub_trace() -> bool {
    kani::any()
}

macro_rules! repair_protocol_instance {
    ($name:ident, $d:expr) => {
        #[kani::proof]
        #[kani::unwind(3)]
        #[kani::stub(repair_delaunay_with_flips_k2_attempt, stub_k2_attempt)]
        #[kani::stub(repair_delaunay_with_flips_k2_k3_attempt, stub_k2k3_attempt)]
        #[kani::stub(verify_repair_postcondition, stub_verify)]
        #[kani::stub(repair_trace_enabled, stub_trace)]
        fn $name() {
            const D: usize = $d;
            let mut tds: Tds<f64, (), (), D> = Tds::empty();
            let tag0: usize = kani::any();
            kani::assume(tag0 < (1usize << 32));
            set_tag(&mut tds, tag0);
            ATT1.store(false, AOrd::Relaxed);
            ATT2.store(false, AOrd::Relaxed);
            ATT3.store(false, AOrd::Relaxed);
            ATT_BAD.store(false, AOrd::Relaxed);
            DIRTY_START.store(false, AOrd::Relaxed);
            USED_K2.store(false, AOrd::Relaxed);
            USED_K2K3.store(false, AOrd::Relaxed);
            CERT_VALID.store(false, AOrd::Relaxed);
            let kernel = FastKernel::<f64>::new();
            let topo = TopologyGuarantee::PLManifold;
            let r = repair_delaunay_with_flips_k2_k3(&mut tds, &kernel, None, topo);
            let (a1, a2, a3) = (ATT1.load(AOrd::Relaxed), ATT2.load(AOrd::Relaxed), ATT3.load(AOrd::Relaxed));
            if D < 2 {
                assert!(r.is_err() && !a1 && !a2 && !a3 && tag(&tds) == tag0, "OBL low-dim: D < 2 => Err, no attempt, unchanged");
            } else {
                assert!(a1, "OBL three-attempts: at least one and at most three attempts (numbered 1..=3)");
                assert!(!ATT_BAD.load(AOrd::Relaxed) && (!a3 || a2) && (!a2 || a1), "OBL attempt-order: attempts are configured 1, 2, 3 in order");
                assert!(!DIRTY_START.load(AOrd::Relaxed), "OBL clean-start: every attempt starts from the pre-repair state (snapshot restored before a retry)");
                let (uses, other) = if D == 2 { (&USED_K2, &USED_K2K3) } else { (&USED_K2K3, &USED_K2) };
                assert!(uses.load(AOrd::Relaxed) && !other.load(AOrd::Relaxed), "OBL engine-by-dim: D == 2 uses the k=2 engine, D >= 3 the k=2/k=3 engine");
                match &r {
                    Ok(_) => {
                        assert!(CERT_VALID.load(AOrd::Relaxed), "OBL ok-certified: Ok only if the LAST thing that happened is a passing postcondition check");
                        assert!(tag(&tds) >= (1usize << 32), "OBL ok-certified-state: the state returned is the one the last attempt produced and the check certified (not a restored snapshot)");
                    }
                    Err(_) => {
                        assert!(tag(&tds) == tag0, "OBL err-unchanged: Err => the triangulation is exactly the pre-repair state");
                    }
                }
            }
            kani::cover!((r.is_ok() && a1 && !a2) || D < 2, "COV ok after one attempt");
            kani::cover!((r.is_ok() && a3) || D < 2, "COV ok after three attempts");
            kani::cover!((r.is_err() && a3) || D < 2, "COV err after three attempts");
            kani::cover!((r.is_err() && a1 && !a2) || D < 2, "COV err after one attempt");
            kani::cover!((r.is_err() && a2 && !a3) || D < 2, "COV err after two attempts");
            core::mem::forget(r);
            core::mem::forget(tds);
        }
    };
}
repair_protocol_instance!(repair_protocol_d2, 2);
repair_protocol_instance!(repair_protocol_d3, 3);
repair_protocol_instance!(repair_protocol_d1, 1);

// =========================================================================================
// C03: apply_bistellar_flip_k1 (Edit-API vertex insertion) - Err leaves no vertex behind
// =========================================================================================
use crate::core::triangulation_data_structure::{TdsConstructionError, TdsMutationError};
use crate::core::vertex::Vertex;
use crate::geometry::point::Point;
use crate::geometry::traits::coordinate::Coordinate as _;
use slotmap::KeyData;

const E_INS: u64 = 5; // Tds::insert_vertex_with_mapping
const E_CTX: u64 = 6; // build_k1_forward_context_from_cell
const E_FLIP: u64 = 7; // apply_bistellar_flip
const E_RMV: u64 = 8; // Tds::remove_vertex
const TAG_WITH_VERTEX: usize = 0x7777_0001;

/// CONTRACT: Ok(key) => exactly the new isolated vertex was added (state tag0 -> TAG_WITH_VERTEX); Err => unchanged
fn stub_insert_vertex<T, U, V, const D: usize>(t: &mut Tds<T, U, V, D>, _v: Vertex<T, U, D>) -> Result<VertexKey, TdsConstructionError>
where U: DataType, V: DataType {
    vk_event(E_INS);
    // (the duplicate-UUID Err path is not exercised: the caller formats the error with
    //  Display, which does not fit in CBMC; on that path nothing has been inserted yet)
    set_tag(t, TAG_WITH_VERTEX);
    Ok(VertexKey::from(KeyData::from_ffi(0x1_0000_0009)))
}
fn stub_k1_context<T, U, V, const D: usize>(_t: &Tds<T, U, V, D>, _c: CellKey, _v: VertexKey) -> Result<FlipContext<D, 1>, FlipError>
where T: CoordinateScalar, U: DataType, V: DataType {
    vk_event(E_CTX);
    if vk_fails(E_CTX) {
        Err(FlipError::MissingCell { cell_key: CellKey::from(KeyData::from_ffi(0x1_0000_0001)) })
    } else {
        Ok(FlipContext { removed_face_vertices: SmallBuffer::new(), inserted_face_vertices: SmallBuffer::new(), removed_cells: CellKeyBuffer::new(), direction: FlipDirection::Forward })
    }
}
/// CONTRACT (assumed): Ok => cells changed (any); Err => the complex is as it was at entry
fn stub_apply_flip<K, U, V, const D: usize, const K_MOVE: usize>(t: &mut Tds<K::Scalar, U, V, D>, _k: &K, _c: &FlipContext<D, K_MOVE>) -> Result<FlipInfo<D>, FlipError>
where K: Kernel<D>, K::Scalar: CoordinateScalar, U: DataType, V: DataType {
    vk_event(E_FLIP);
    if vk_fails(E_FLIP) {
        Err(FlipError::UnsupportedDimension { dimension: 6 })
    } else {
        set_tag(t, kani::any());
        Ok(FlipInfo { kind: BistellarFlipKind::k1(D), direction: FlipDirection::Forward, removed_cells: CellKeyBuffer::new(), new_cells: CellKeyBuffer::new(),
                      removed_face_vertices: SmallBuffer::new(), inserted_face_vertices: SmallBuffer::new() })
    }
}
fn stub_get_vertex<T, U, V, const D: usize>(t: &Tds<T, U, V, D>, _v: VertexKey) -> Option<&'static Vertex<T, U, D>>
where T: CoordinateScalar, U: DataType, V: DataType {
    if tag(t) == TAG_WITH_VERTEX { Some(Box::leak(Box::new(Vertex::empty()))) } else { None }
}
/// CONTRACT: removing the freshly inserted isolated vertex gives back the entry state
fn stub_remove_vertex<T, U, V, const D: usize>(t: &mut Tds<T, U, V, D>, _v: &Vertex<T, U, D>) -> Result<usize, TdsMutationError>
where U: DataType, V: DataType {
    vk_event(E_RMV);
    if tag(t) == TAG_WITH_VERTEX {
        set_tag(t, VK_AUX.load(AOrd::Relaxed) as usize);
    }
    Ok(0)
}

#[kani::proof]
#[kani::unwind(4)]
#[kani::stub(Tds::insert_vertex_with_mapping, stub_insert_vertex)]
#[kani::stub(build_k1_forward_context_from_cell, stub_k1_context)]
#[kani::stub(apply_bistellar_flip, stub_apply_flip)]
#[kani::stub(Tds::get_vertex_by_key, stub_get_vertex)]
#[kani::stub(Tds::remove_vertex, stub_remove_vertex)]
fn flip_k1_insert_rollback_contract() {
    let mut tds: Tds<f64, (), (), 2> = Tds::empty();
    let tag0: usize = kani::any();
    kani::assume(tag0 != usize::MAX && tag0 != TAG_WITH_VERTEX);
    set_tag(&mut tds, tag0);
    let fail: u64 = kani::any();
    vk_reset(fail, 0);
    VK_AUX.store(tag0 as u64, AOrd::Relaxed);
    let kernel = FastKernel::<f64>::new();
    let v: Vertex<f64, (), 2> = Vertex::new_with_uuid(Point::new([0.5, 0.5]), uuid::Uuid::nil(), None);
    let r = apply_bistellar_flip_k1(&mut tds, &kernel, CellKey::from(KeyData::from_ffi(0x1_0000_0001)), v);
    match &r {
        Ok(_) => assert!(vk_called(E_INS) && vk_called(E_CTX) && vk_called(E_FLIP), "OBL ok-path: Ok only after vertex insertion, context construction and the flip all succeeded"),
        Err(_) => assert!(tag(&tds) == tag0, "OBL err-no-vertex-left: Err (duplicate UUID, missing cell, failed flip) => the triangulation is as before, in particular the new vertex is gone"),
    }
    kani::cover!(r.is_err() && vk_called(E_CTX) && !vk_called(E_FLIP), "COV context construction fails");
    kani::cover!(r.is_err() && vk_called(E_FLIP), "COV flip fails");
    kani::cover!(r.is_ok(), "COV ok");
    core::mem::forget(r);
    core::mem::forget(tds);
}
