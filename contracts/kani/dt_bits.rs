//! Bit depths chosen by the ordering strategies (src/core/delaunay_triangulation.rs): they always
//! satisfy the preconditions of the curve functions.
use super::*;

macro_rules! bits_instance {
    ($name:ident, $d:expr) => {
        #[kani::proof]
        fn $name() {
            const D: usize = $d;
            let h = hilbert_bits_per_coord::<D>();
            if D == 0 {
                assert!(h.is_none(), "OBL hilbert-bits-d0: no bit depth for D = 0");
            } else {
                let b = h.unwrap();
                assert!(b >= 1 && b <= 31 && (D as u128) * (b as u128) <= 128, "OBL hilbert-bits-precondition: the chosen depth satisfies 1 <= bits <= 31 and D * bits <= 128 (precondition of the Hilbert index functions)");
                assert!(b == core::cmp::min(128 / (D as u32), 31), "OBL hilbert-bits-max: it is the largest such depth");
            }
            let m = morton_bits_per_coord::<D>();
            if D < 2 || D > 5 {
                assert!(m.is_none(), "OBL morton-bits-unsupported: no Morton depth outside D = 2..=5 (falls back to lexicographic ordering)");
            } else {
                let b = m.unwrap();
                assert!(b >= 1 && (D as u32) * b <= 64 && b == 64 / (D as u32), "OBL morton-bits-precondition: D * bits <= 64 and bits == 64 / D");
            }
        }
    };
}
bits_instance!(bits_d0, 0);
bits_instance!(bits_d1, 1);
bits_instance!(bits_d2, 2);
bits_instance!(bits_d3, 3);
bits_instance!(bits_d4, 4);
bits_instance!(bits_d5, 5);
bits_instance!(bits_d6, 6);
