//! K-slices of `DelaunayTriangulation::insert` / `insert_with_statistics`: the decision whether
//! to snapshot the state before an insertion (verbatim statements, see the overlay log).
use super::*;
use core::sync::atomic::{AtomicUsize, Ordering as AOrd};
static NCELLS: AtomicUsize = AtomicUsize::new(0);
static NVERTS: AtomicUsize = AtomicUsize::new(0);
fn stub_ncells<T, U, V, const D: usize>(_t: &Tds<T, U, V, D>) -> usize where U: DataType, V: DataType { NCELLS.load(AOrd::Relaxed) }
fn stub_nverts<T, U, V, const D: usize>(_t: &Tds<T, U, V, D>) -> usize where U: DataType, V: DataType { NVERTS.load(AOrd::Relaxed) }

fn any_repair_policy() -> DelaunayRepairPolicy {
    match kani::any::<u8>() % 3 {
        0 => DelaunayRepairPolicy::Never,
        1 => DelaunayRepairPolicy::EveryInsertion,
        _ => { let n: usize = kani::any(); kani::assume(n >= 1 && n <= 16); DelaunayRepairPolicy::EveryN(core::num::NonZeroUsize::new(n).unwrap()) }
    }
}
fn any_check_policy() -> DelaunayCheckPolicy {
    if kani::any() { DelaunayCheckPolicy::EndOnly } else { let n: usize = kani::any(); kani::assume(n >= 1 && n <= 16); DelaunayCheckPolicy::EveryN(core::num::NonZeroUsize::new(n).unwrap()) }
}

macro_rules! snapshot_decision {
    ($name:ident, $slice:ident) => {
        #[kani::proof]
        #[kani::unwind(4)]
        #[kani::stub(Tds::number_of_cells, stub_ncells)]
        #[kani::stub(Tds::number_of_vertices, stub_nverts)]
        fn $name() {
            const D: usize = 2;
            let mut dt = DelaunayTriangulation::<FastKernel<f64>, (), (), D>::empty();
            let rp = any_repair_policy();
            let cp = any_check_policy();
            let count: usize = kani::any();
            kani::assume(count <= 1024);
            dt.insertion_state.delaunay_repair_policy = rp;
            dt.insertion_state.delaunay_check_policy = cp;
            dt.insertion_state.delaunay_repair_insertion_count = count;
            let (nc, nv): (usize, usize) = (kani::any(), kani::any());
            kani::assume(nv < usize::MAX); // vertex count of a real triangulation
            NCELLS.store(nc, AOrd::Relaxed);
            NVERTS.store(nv, AOrd::Relaxed);
            let snapshot_needed = dt.$slice();
            // what can run - and fail - after THIS insertion: the counter is incremented first,
            // then repair is decided by should_repair(count + 1) (and never under policy Never),
            // then the global check by should_check(count + 1); both only once cells exist.
            let next = count + 1;
            let cells_after = nc > 0 || nv + 1 > D;
            let repair_can_run = cells_after && rp.should_repair(next);
            let check_can_run = cells_after && cp.should_check(next);
            if repair_can_run || check_can_run {
                assert!(snapshot_needed, "OBL snapshot-when-poststep: whenever a post-insertion step (flip repair or scheduled Delaunay check) can run for this insertion, a rollback snapshot is taken first");
            }
            if !cells_after {
                assert!(!snapshot_needed, "OBL no-snapshot-in-bootstrap: no snapshot while the insertion cannot create cells (nothing can fail afterwards)");
            }
            kani::cover!(snapshot_needed && matches!(rp, DelaunayRepairPolicy::Never), "COV snapshot only for the scheduled check");
            kani::cover!(!snapshot_needed && cells_after, "COV no post-step due");
            core::mem::forget(dt);
        }
    };
}
snapshot_decision!(insert_snapshot_decision, verif_slice_insert_snapshot_needed);
snapshot_decision!(insert_stats_snapshot_decision, verif_slice_insert_stats_snapshot_needed);
