//! Contracts for `src/topology/characteristics/validation.rs`: classification + expected chi.
use super::*;
use crate::core::collections::SmallBuffer;
use crate::core::facet::FacetHandle;
use crate::core::triangulation_data_structure::CellKey;
use slotmap::KeyData;

include!("/verif/contracts/kani/common.rs");

fn stub_counts<T, U, V, const D: usize>(_t: &Tds<T, U, V, D>, _m: &FacetToCellsMap) -> FVector
where T: CoordinateScalar, U: DataType, V: DataType {
    FVector { by_dim: Vec::with_capacity(1) }
}
fn stub_chi(_c: &FVector) -> isize {
    VK_AUX.load(AOrd::Relaxed) as i64 as isize
}
fn stub_ncells<T, U, V, const D: usize>(_t: &Tds<T, U, V, D>) -> usize
where U: DataType, V: DataType {
    VK_NCELLS.load(AOrd::Relaxed)
}
fn stub_format(_a: core::fmt::Arguments<'_>) -> String {
    String::with_capacity(1)
}
fn handle(n: u64) -> FacetHandle {
    FacetHandle::new(CellKey::from(KeyData::from_ffi(0x1_0000_0000 + n)), 0)
}

macro_rules! classify_instance {
    ($name:ident, $d:expr, $wb:expr) => {
        #[kani::proof]
        #[kani::unwind(8)]
        #[kani::stub(crate::topology::characteristics::euler::count_simplices_with_facet_to_cells_map, stub_counts)]
        #[kani::stub(crate::topology::characteristics::euler::euler_characteristic, stub_chi)]
        #[kani::stub(Tds::number_of_cells, stub_ncells)]
        #[kani::stub(alloc::fmt::format, stub_format)]
        fn $name() {
            const D: usize = $d;
            let tds: Tds<f64, (), (), D> = Tds::empty();
            let ncells: usize = kani::any();
            let chi: i8 = kani::any();
            vk_reset(0, ncells);
            VK_AUX.store(chi as i64 as u64, AOrd::Relaxed);
            // facet map: ONE facet - a boundary facet (1 cell) or an interior facet (2 cells)
            let with_boundary: bool = $wb; // concrete per instance (hash-map contents)
            let mut map = FacetToCellsMap::default();
            // one facet only (a second hash-map entry makes the iteration too expensive for CBMC)
            if with_boundary {
                let mut b: SmallBuffer<FacetHandle, 2> = SmallBuffer::new();
                b.push(handle(1));
                map.insert(12, b);
            } else {
                let mut inner: SmallBuffer<FacetHandle, 2> = SmallBuffer::new();
                inner.push(handle(1));
                inner.push(handle(2));
                map.insert(11, inner);
            }
            let r = validate_triangulation_euler_with_facet_to_cells_map(&tds, &map);
            assert!(r.chi == chi as isize, "OBL chi-reported: the computed Euler characteristic is reported unchanged");
            if ncells == 0 {
                assert!(matches!(r.classification, TopologyClassification::Empty) && r.expected == Some(0), "OBL empty: no cells => Empty, expected chi 0");
            } else if ncells == 1 {
                assert!(matches!(r.classification, TopologyClassification::SingleSimplex(d) if d == D) && r.expected == Some(1), "OBL single: one cell => SingleSimplex(D), expected chi 1");
            } else if with_boundary {
                assert!(matches!(r.classification, TopologyClassification::Ball(d) if d == D) && r.expected == Some(1),
                    "OBL ball: at least two cells and a boundary facet => Ball(D) held to chi = 1 (every bounded Euclidean triangulation)");
            } else {
                let sphere_chi: isize = if D % 2 == 0 { 2 } else { 0 };
                assert!(matches!(r.classification, TopologyClassification::ClosedSphere(d) if d == D) && r.expected == Some(sphere_chi),
                    "OBL sphere: no boundary facet => ClosedSphere(D) held to chi = 1 + (-1)^D");
            }
            kani::cover!(ncells >= 2, "COV at least two cells");
            core::mem::forget(r);
            core::mem::forget(map);
            core::mem::forget(tds);
        }
    };
}
classify_instance!(euler_classify_d3_ball, 3, true);
classify_instance!(euler_classify_d3_closed, 3, false);
classify_instance!(euler_classify_d2_ball, 2, true);
classify_instance!(euler_classify_d2_closed, 2, false);
