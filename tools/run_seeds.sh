#!/bin/bash
# run_seeds.sh [tier] [seed ...] : apply each seeded change to /repo, run the property's check, undo.
# Writes /verif/seeded/<name>/detect.<tier>.log and prints one line per seed.
tier=${1:-quick}; shift
seeds=${@:-$(ls /verif/seeded)}
cd /verif
for s in $seeds; do
  d=/verif/seeded/$s
  prop=$(python3 -c "import json;print(json.load(open('$d/meta.json'))['property'])")
  if ! git -C /repo apply --check $d/patch.diff 2>/dev/null; then echo "$s $prop PATCH-DOES-NOT-APPLY"; continue; fi
  git -C /repo apply $d/patch.diff
  extra=""
  [ -f $d/also_check ] && extra=$(cat $d/also_check)
  out=""
  for p in $prop $extra; do
    bin/check $p --tier $tier --no-evidence --no-mutants > $d/detect.$tier.$p.out 2> $d/detect.$tier.$p.err; rc=$?
    v=$(grep -c "^VIOLATION" $d/detect.$tier.$p.out)
    u=$(grep -c "UNDECIDED" $d/detect.$tier.$p.err)
    out="$out $p:exit=$rc,violations=$v,undecided=$u"
  done
  git -C /repo checkout -- . 
  echo "$s$out"
  grep -h "^VIOLATION" $d/detect.$tier.*.out | sed 's/^/    /'
done
