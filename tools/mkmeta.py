#!/usr/bin/env python3
"""mkmeta.py <seed> <property> <summary> <needs> : write seeded/<seed>/meta.json from confirm.log"""
import json, os, re, sys
seed, prop, summary, needs = sys.argv[1:5]
d = os.path.join(os.path.dirname(os.path.abspath(__file__)), "..", "seeded", seed)
log = open(os.path.join(d, "confirm.log")).read()
sec = dict(re.findall(r"== (.*?)\n(.*?)(?=\n== |\ndone|$)", log, re.S))
demo = [f for f in os.listdir(d) if f.startswith("seeded_") and f.endswith(".rs")][0]
meta = {
    "property": prop, "summary": summary, "needs": needs,
    "source": "independent sub-agent given only the property record (plus one line naming the earlier seed to avoid) and its own scratch worktree of /repo (HEAD incl. fix commits)",
    "files": {"patch": "patch.diff", "demonstration": demo},
    "confirmed": {
        "tool": "tools/confirm_seed.sh",
        "base_commit": re.search(r"base=(\w+)", log).group(1) + " (pinned tree + all fix commits)",
        "patch_applies_and_builds": "Finished" in sec.get("build WITH patch", "") and "PATCH DOES NOT APPLY" not in log,
        "demo_fails_with_patch": "FAILED" in sec.get("demo WITH patch", ""),
        "demo_passes_without_patch": "test result: ok" in sec.get("demo WITHOUT patch", ""),
        "existing_suite_with_patch": sec.get("suite WITH patch", "").strip().splitlines()[0].strip() if sec.get("suite WITH patch", "").strip() else "",
    },
}
json.dump(meta, open(os.path.join(d, "meta.json"), "w"), indent=1)
print(seed, meta["confirmed"])
