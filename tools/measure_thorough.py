#!/usr/bin/env python3
"""Runs every thorough-only Kani unit once (no mutants) against $VERIF_REPO and prints status + time.
Maintenance tool: decides which units can stay registered in the thorough tier."""
import os, sys, json, time
sys.path.insert(0, '/verif/lib')
import core, units
from concurrent.futures import ThreadPoolExecutor
todo = [u for u in units.UNITS if u['engine'] == 'kani' and u.get('tier', 'quick') == 'thorough']
only = sys.argv[1:]
if only:
    todo = [u for u in todo if any(u['id'].startswith(o) for o in only)]
s = core.Scratch('measure'); s.create()
done_sl, att = set(), set()
for u in todo:
    try:
        for sl in u.get('slices', []):
            if sl['name'] not in done_sl:
                s.add_slice(sl); done_sl.add(sl['name'])
    except Exception as e:
        print(u['id'], 'SLICE-LOST', e)
for u in todo:
    for key in [(u['file'], u['modfile'])] + [tuple(x) for x in u.get('extra_attach', [])]:
        if key not in att:
            s.attach(*key); att.add(key)
cap = int(os.environ.get('MEASURE_TIMEOUT', '3600'))
def run(u):
    uu = dict(u, timeout=min(u.get('timeout', 600), cap))
    r = core.run_kani_unit(s, uu, 20)
    st = 'UNDECIDED: ' + r['undecided'].splitlines()[0][:80] if r.get('undecided') else 'ok'
    bad = [o['id'] for o in r['obligations'] if o['status'] != 'discharged']
    line = f"{u['id']:45s} {r['wall_s']:8.0f}s  {st}  {bad if bad else ''}"
    print(line, flush=True)
    return line
with ThreadPoolExecutor(int(os.environ.get('MEASURE_JOBS', '4'))) as ex:
    list(ex.map(run, sorted(todo, key=lambda u: u.get('timeout', 600))))
s.remove()
