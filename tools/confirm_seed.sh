#!/bin/bash
# confirm_seed.sh <seed-dir-name> : confirm a seeded change in a scratch worktree of /repo HEAD
#  1. patch applies and crate builds; 2. demo FAILS with the patch; 3. demo PASSES without;
#  4. existing suite passes with the patch.   Writes /verif/seeded/<name>/confirm.log
set -u
name=$1
sd=/verif/seeded/$name
wt=/tmp/confirm-wt
log=$sd/confirm.log
: > $log
if [ ! -d $wt ]; then git -C /repo worktree add -q --detach $wt HEAD; fi
cd $wt && git checkout -q --detach $(git -C /repo rev-parse HEAD) && git checkout -q -- . && git clean -qfd tests src
export CARGO_TARGET_DIR=/tmp/confirm-target CARGO_NET_OFFLINE=true
demo=$(ls $sd/seeded_*.rs | head -1)
cp $demo tests/$(basename $demo)
t=$(basename $demo .rs)
echo "base=$(git rev-parse --short HEAD)" >> $log
echo "== demo WITHOUT patch" >> $log
cargo test --offline --test $t 2>&1 | grep -E "^test result|^error" >> $log
if ! git apply --check $sd/patch.diff 2>>$log; then echo "PATCH DOES NOT APPLY" >> $log; exit 1; fi
git apply $sd/patch.diff
echo "== build WITH patch" >> $log
cargo build --offline 2>&1 | grep -E "^error|Finished" >> $log
echo "== demo WITH patch" >> $log
cargo test --offline --test $t 2>&1 | grep -E "^test result|^error" >> $log
rm tests/$(basename $demo)
echo "== suite WITH patch" >> $log
cargo nextest run --workspace --no-fail-fast --offline --test-threads 4 2>&1 | grep -E "Summary|FAIL " | head -20 >> $log
git checkout -q -- . ; git clean -qfd tests src
echo "done" >> $log
